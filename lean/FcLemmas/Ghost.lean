/-
  FcLemmas/Ghost.lean — shape of the trace segments the kernel operations append, and a generic
  lemma to carry ghost observations across segments they do not look at.
-/
import FcLemmas.Engine

namespace Fc
open Mon

/-- events appended by invoking wakers -/
def isFireEv : Ev → Bool
  | .fired _ _ _ | .woke _ | .wakePanic => true
  | _ => false

/-- a ghost observation that ignores the events satisfying `p` is unchanged by a segment of them -/
theorem skip_seg {α : Type} (g : List Ev → α) (p : Ev → Bool)
    (hg : ∀ e t, p e = true → g (e :: t) = g t) (l : List Ev) (hl : ∀ e ∈ l, p e = true)
    (t : List Ev) : g (l ++ t) = g t := by
  induction l with
  | nil => rfl
  | cons e l ih =>
    rw [List.cons_append, hg e _ (hl e (List.mem_cons_self ..))]
    exact ih (fun e' he' => hl e' (List.mem_cons_of_mem _ he'))

namespace World

theorem fireWk_seg (w : World) (wk : Wk) :
    ∃ l, (w.fireWk wk).trace = l ++ w.trace ∧ ∀ e ∈ l, isFireEv e = true := by
  cases wk with
  | par p => exact ⟨[.woke p], rfl, by simp [isFireEv]⟩
  | sub s =>
    unfold fireWk
    cases w.mode with
    | direct => exact ⟨[], rfl, by simp⟩
    | std =>
      simp only
      by_cases hb : w.bits s = true
      · simp only [hb, if_true]; exact ⟨[], rfl, by simp⟩
      · simp only [hb]
        cases w.parent with
        | some p => exact ⟨[.woke p], by simp, by simp [isFireEv]⟩
        | none => exact ⟨[.wakePanic], by simp, by simp [isFireEv]⟩

theorem fire_seg (w : World) (c a : Nat) :
    ∃ l, (w.fire c a).trace = l ++ w.trace ∧ ∀ e ∈ l, isFireEv e = true := by
  unfold fire
  split
  · exact ⟨[.fired c a none], rfl, by simp [isFireEv]⟩
  · rename_i wk _
    obtain ⟨l, hl, hp⟩ := fireWk_seg (w.emit (.fired c a (some wk))) wk
    refine ⟨l ++ [.fired c a (some wk)], by simp [hl], ?_⟩
    intro e he
    simp only [List.mem_append, List.mem_singleton] at he
    rcases he with he | rfl
    · exact hp e he
    · rfl

theorem fires_seg (w : World) (fs : List (Nat × Nat)) :
    ∃ l, (w.fires fs).trace = l ++ w.trace ∧ ∀ e ∈ l, isFireEv e = true := by
  induction fs generalizing w with
  | nil => exact ⟨[], rfl, by simp⟩
  | cons p fs ih =>
    rw [fires_cons]
    obtain ⟨l1, h1, p1⟩ := fire_seg w p.1 p.2
    obtain ⟨l2, h2, p2⟩ := ih (w.fire p.1 p.2)
    refine ⟨l2 ++ l1, by simp [h2, h1], ?_⟩
    intro e he
    simp only [List.mem_append] at he
    rcases he with he | he
    · exact p2 e he
    · exact p1 e he

/-- `pollChild` appends `childBegin`, a segment of fire events, `childEnd` -/
theorem pollChild_seg (w : World) (c s : Nat) :
    ∃ l, (w.pollChild c s).trace
        = .childEnd c (w.resOf c) :: (l ++ .childBegin c s (w.wakerFor s) :: w.trace)
      ∧ ∀ e ∈ l, isFireEv e = true := by
  unfold pollChild
  obtain ⟨l, hl, hp⟩ := fires_seg
    { w with scripts := upd w.scripts c (w.scripts c).tail,
             handed := upd w.handed c (w.wakerFor s :: w.handed c),
             trace := .childBegin c s (w.wakerFor s) :: w.trace } (w.stepOf c).fires
  exact ⟨l, by simp [hl], hp⟩

end World

/-! ghost observations and fire events -/

theorem lastRes_fireEv (c : Nat) (e : Ev) (t : List Ev) (h : isFireEv e = true) :
    lastRes (e :: t) c = lastRes t c := by
  cases e <;> simp_all [isFireEv, lastRes]

theorem lastWk_fireEv (c : Nat) (e : Ev) (t : List Ev) (h : isFireEv e = true) :
    lastWk (e :: t) c = lastWk t c := by
  cases e <;> simp_all [isFireEv, lastWk]

theorem everPolled_fireEv (c : Nat) (e : Ev) (t : List Ev) (h : isFireEv e = true) :
    everPolled (e :: t) c = everPolled t c := by
  cases e <;> simp_all [isFireEv, everPolled]

theorem polledSince_fireEv (c : Nat) (e : Ev) (t : List Ev) (h : isFireEv e = true) :
    polledSince (e :: t) c = polledSince t c := by
  cases e <;> simp_all [isFireEv, polledSince]

theorem cur_fireEv (e : Ev) (t : List Ev) (h : isFireEv e = true) : cur (e :: t) = cur t := by
  cases e <;> simp_all [isFireEv, cur]

theorem inPoll_fireEv (e : Ev) (t : List Ev) (h : isFireEv e = true) : inPoll (e :: t) = inPoll t := by
  cases e <;> simp_all [isFireEv, inPoll]

theorem lastOut_fireEv (e : Ev) (t : List Ev) (h : isFireEv e = true) :
    lastOut (e :: t) = lastOut t := by
  cases e <;> simp_all [isFireEv, lastOut]

theorem alive_fireEv (e : Ev) (t : List Ev) (h : isFireEv e = true) : alive (e :: t) = alive t := by
  cases e <;> simp_all [isFireEv, alive]

theorem gone_fireEv (c : Nat) (e : Ev) (t : List Ev) (h : isFireEv e = true) :
    gone (e :: t) c = gone t c := by
  cases e <;> simp_all [isFireEv, gone]

/-! ghost observations and ownership events -/

theorem lastRes_own (c : Nat) (e : Ev) (t : List Ev) (h : isOwnEv e = true) :
    lastRes (e :: t) c = lastRes t c := by
  cases e <;> simp_all [isOwnEv, lastRes]
theorem lastWk_own (c : Nat) (e : Ev) (t : List Ev) (h : isOwnEv e = true) :
    lastWk (e :: t) c = lastWk t c := by
  cases e <;> simp_all [isOwnEv, lastWk]
theorem everPolled_own (c : Nat) (e : Ev) (t : List Ev) (h : isOwnEv e = true) :
    everPolled (e :: t) c = everPolled t c := by
  cases e <;> simp_all [isOwnEv, everPolled]
theorem polledSince_own (c : Nat) (e : Ev) (t : List Ev) (h : isOwnEv e = true) :
    polledSince (e :: t) c = polledSince t c := by
  cases e <;> simp_all [isOwnEv, polledSince]
theorem owes_own (c : Nat) (e : Ev) (t : List Ev) (h : isOwnEv e = true) :
    owes (e :: t) c = owes t c := by
  cases e <;> simp_all [isOwnEv, owes]
theorem cur_own (e : Ev) (t : List Ev) (h : isOwnEv e = true) : cur (e :: t) = cur t := by
  cases e <;> simp_all [isOwnEv, cur]
theorem wokeSince_own (e : Ev) (t : List Ev) (h : isOwnEv e = true) :
    wokeSince (e :: t) = wokeSince t := by
  cases e <;> simp_all [isOwnEv, wokeSince]
theorem inPoll_own (e : Ev) (t : List Ev) (h : isOwnEv e = true) : inPoll (e :: t) = inPoll t := by
  cases e <;> simp_all [isOwnEv, inPoll]
theorem lastOut_own (e : Ev) (t : List Ev) (h : isOwnEv e = true) :
    lastOut (e :: t) = lastOut t := by
  cases e <;> simp_all [isOwnEv, lastOut]
theorem alive_own (e : Ev) (t : List Ev) (h : isOwnEv e = true) : alive (e :: t) = alive t := by
  cases e <;> simp_all [isOwnEv, alive]

/-- carry an observation that ignores ownership events across `emits` -/
theorem emits_own_skip {α : Type} (g : List Ev → α)
    (hg : ∀ e t, isOwnEv e = true → g (e :: t) = g t) (w : World) (l : List Ev)
    (hl : ∀ e ∈ l, isOwnEv e = true) : g (w.emits l).trace = g w.trace := by
  simp only [World.emits_trace]
  exact skip_seg g isOwnEv hg l.reverse (fun e he => hl e (List.mem_reverse.mp he)) _

end Fc
