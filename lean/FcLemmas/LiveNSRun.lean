/-
  FcLemmas/LiveNSRun.lean — the wake-only executor on a nest of stream combinators: wake-ups
  between polls, the prodded child, and the induction on the round budget (cf. FcLemmas/LiveNRun.lean
  and `Live3.ends_aux`).
-/
import FcLemmas.LiveNSPoll
import FcLemmas.LiveNRun
set_option linter.unusedSimpArgs false
set_option linter.unusedVariables false

namespace Fc
namespace LiveN
open Mon Live Live3 Nest

variable {nc : NCase} {F : SNest nc} {s : St}

/-- the flat invariant survives any list of wake-ups -/
theorem sl_wfires {P : Policy Fix} {n : Nat} {Inv : Eng Fix → Prop} (S : SLive P n Inv) :
    ∀ (l : List (Nat × Nat)) (e : Eng Fix), Inv e → Inv { e with w := e.w.fires l } := by
  intro l
  induction l with
  | nil => intro e h; exact h
  | cons p l ih =>
    intro e h
    have := ih (e.fire p.1 p.2) (S.fire e p.1 p.2 h)
    exact this

/-! ### a wake-up between polls -/

theorem sbn_fire (h : SBN nc F s) (id age : Nat) : SBN nc F (fire nc s id age) := by
  have hn := ninv_fire h.ninv id age
  obtain ⟨f, hfp, hInv⟩ := h.vo
  by_cases hid : id < 100
  · rw [fire_lt nc s id age hid] at hn ⊢
    refine ⟨hn, ⟨f, ?_, ?_⟩, ?_⟩
    · intro c hin; simp only [Eng.fire_w, World.fire_scripts]; exact hfp c hin
    · rw [← setScripts_fire]; exact F.so.fire _ id age hInv
    · intro c fam k hc hin hu
      simp only [Eng.fire_w, C16.lastRes_fire] at hu
      exact h.inn c fam k hc hin hu
  · obtain ⟨fs, hfs⟩ := fire_ge nc s id age hid
    rw [hfs] at hn ⊢
    refine ⟨hn, ⟨f, ?_, ?_⟩, ?_⟩
    · intro c hin; simp only [leafSt_out_w, World.fires_scripts]; exact hfp c hin
    · rw [leafSt_out, setScripts_wfires]; exact sl_wfires F.so fs _ hInv
    · intro c fam k hc hin hu
      simp only [leafSt_out_w, C16.lastRes_fires] at hu
      obtain ⟨hl, hg⟩ := h.inn c fam k hc hin hu
      refine ⟨?_, hg⟩
      rw [leafSt_inn]
      split
      · rename_i hcc; subst hcc
        exact (F.si _ fam k hin).fire _ _ _ hl
      · exact hl

theorem muS_fire (nc : NCase) (s : St) (id age : Nat) : muS nc (fire nc s id age) = muS nc s := by
  have hm : ∀ c, mInS nc (fire nc s id age) c = mInS nc s c := by
    intro c
    by_cases hid : id < 100
    · rw [fire_lt nc s id age hid]
      unfold mInS
      simp only [Eng.fire_w, World.fire_scripts, C16.lastRes_fire]
    · obtain ⟨fs, hfs⟩ := fire_ge nc s id age hid
      rw [hfs]
      unfold mInS
      simp only [leafSt_out_w, World.fires_scripts, C16.lastRes_fires]
      cases nc.inner c with
      | none => rfl
      | some fk =>
        simp only
        split
        · rfl
        · rw [leafSt_inn]
          split
          · rename_i hcc; subst hcc; simp [Exec.stepsLeft]
          · rfl
  unfold muS
  congr 1
  funext c; exact hm c

/-! ### the child the environment prods -/

theorem str_scripts_ne {n : Nat} {w : World} {c : Nat} (hw : WInvS n w) (hc : c < n)
    (hlr : lastRes w.trace c = some .pend) : w.scripts c ≠ [] := by
  rcases hw.str c hc with hs | hs
  · exact ss_ne_nil _ hs.1
  · rw [hlr] at hs; cases hs

/-- after a `Pending` top-level poll some scripted child is waiting -/
theorem waiting_someS (h : SBN nc F s) (hwf : ExecN.wellFormed nc = true)
    (hlo : lastOut s.out.w.trace = some .pending) :
    ∃ id, ExecN.firstWaiting nc s = some id ∧ Waiting nc s id := by
  obtain ⟨f, hfp, hInv⟩ := h.vo
  obtain ⟨c, hc, hlr⟩ := F.so.waiting (setScripts s.out f) hInv hlo
  have hlr : lastRes s.out.w.trace c = some .pend := hlr
  have hne : (List.range nc.n).flatMap (ExecN.waitingIn nc s) ≠ [] := by
    cases hin : nc.inner c with
    | none =>
      have hsc : s.out.w.scripts c ≠ [] := by
        rw [← hfp c hin]
        exact str_scripts_ne (F.so.wi (setScripts s.out f) hInv) hc hlr
      have hw : ExecN.waitingPlain nc s c = true := by
        simp [ExecN.waitingPlain, hin, hlr, hsc]
      intro hnil
      have : c ∈ (List.range nc.n).flatMap (ExecN.waitingIn nc s) :=
        List.mem_flatMap.mpr ⟨c, List.mem_range.mpr hc, by simp [ExecN.waitingIn, hin, hw]⟩
      rw [hnil] at this; cases this
    | some fk =>
      obtain ⟨fam, k⟩ := fk
      have hs : (nc.inner c).isSome = true := by simp [hin]
      have hub : lastRes s.out.w.trace c ≠ some .fin := by rw [hlr]; simp
      obtain ⟨hli, hg0⟩ := h.inn c fam k hc hin hub
      have hloi := (h.ninv.lk c hc hs).l2 hlr
      have S := F.si c fam k hin
      obtain ⟨g, hg, hlrg⟩ := S.waiting (s.inn c) hli hloi
      have hneg := str_scripts_ne (S.wi _ hli) hg hlrg
      have hw : ExecN.waitingLeaf nc s c g = true := by
        simp [ExecN.waitingLeaf, hg0, hlr, hlrg, hneg]
      intro hnil
      have : leafId c g ∈ (List.range nc.n).flatMap (ExecN.waitingIn nc s) :=
        List.mem_flatMap.mpr ⟨c, List.mem_range.mpr hc, by
          simp only [ExecN.waitingIn, hin, List.mem_map, List.mem_filter, List.mem_range]
          exact ⟨g, ⟨hg, hw⟩, rfl⟩⟩
      rw [hnil] at this; cases this
  unfold ExecN.firstWaiting
  cases hl : (List.range nc.n).flatMap (ExecN.waitingIn nc s) with
  | nil => exact absurd hl hne
  | cons id rest =>
    exact ⟨id, rfl, waiting_of_mem hwf (by rw [hl]; exact List.mem_cons_self ..)⟩

theorem muS_pos_of_waiting {id : Nat} (hw : Waiting nc s id) : 1 ≤ muS nc s := by
  rcases hw with ⟨hc, _, hin, _, hne⟩ | ⟨c, fam, k, g, hc, hin, hg, _, _, _, hlr, _, hne⟩
  · have h3 := le_total (mInS nc s) nc.n id hc
    rw [mInS_plain hin] at h3
    have h4 := length_pos_of_ne_nil' _ hne
    unfold muS; omega
  · have h3 := le_total (mInS nc s) nc.n c hc
    rw [mInS_nested hin (by rw [hlr]; simp)] at h3
    have h5 := le_total (fun g => ((s.inn c).w.scripts g).length) k g hg
    have h4 := length_pos_of_ne_nil' _ hne
    rw [stepsLeft_eq] at h3
    unfold muS; omega

/-- invoking the waker a waiting child holds makes it owe -/
theorem owes_prod {n : Nat} {w : World} {c : Nat} (hw : WInvS n w)
    (hlr : lastRes w.trace c = some .pend) : owes (w.fire c 0).trace c = true := by
  obtain ⟨wk, hwk⟩ : ∃ wk, lastWk w.trace c = some wk := by
    cases hh : lastWk w.trace c with
    | none => exact absurd hh (hw.lw c (by rw [hlr]; simp))
    | some wk => exact ⟨wk, rfl⟩
  exact owes_fire_hit w c wk (by rw [hw.hw c, hwk]) hwk

theorem sbn_prod (h : SBN nc F s) (hlo : lastOut s.out.w.trace = some .pending) {id : Nat}
    (hw : Waiting nc s id) :
    SBN nc F (fire nc s id 0) ∧ lastOut (fire nc s id 0).out.w.trace = some .pending ∧
      wokeSince (fire nc s id 0).out.w.trace = true ∧ Owed nc (fire nc s id 0) := by
  have h' := sbn_fire h id 0
  refine ⟨h', ?_⟩
  rcases hw with ⟨hc, hid, hin, hlr, _⟩ | ⟨c, fam, k, g, hc, hin, hg, hid, hdc, hdg, hlr, hlrg, hne⟩
  · -- a plain outer child
    obtain ⟨f, hfp, hInv⟩ := h.vo
    have hwi : WInvS nc.n (s.out.w.ss f) := F.so.wi (setScripts s.out f) hInv
    have ho : owes (s.out.w.fire id 0).trace id = true := by
      have := owes_prod (w := s.out.w.ss f) hwi hlr
      rw [World.ss_fire] at this
      exact this
    rw [fire_lt nc s id 0 hid] at h' ⊢
    have hlo' : lastOut (s.out.fire id 0).w.trace = some .pending := by
      simp only [Eng.fire_w]; rw [C01.lastOut_fire]; exact hlo
    have hlr' : lastRes (s.out.fire id 0).w.trace id = some .pend := by
      simp only [Eng.fire_w]; rw [C16.lastRes_fire]; exact hlr
    refine ⟨hlo', ?_, Or.inl ⟨id, hc, hin, hlr', ho⟩⟩
    obtain ⟨f', _, hInv'⟩ := h'.vo
    have hsp' := F.so.sp _ hInv'
    exact h'.ninv.fo.quiet_pt id (alive_of_sp hsp') hlo' hlr' ho
  · -- a leaf
    subst hdc; subst hdg
    have hs : (nc.inner (id / 100 - 1)).isSome = true := by simp [hin]
    have hub : lastRes s.out.w.trace (id / 100 - 1) ≠ some .fin := by rw [hlr]; simp
    obtain ⟨hli, _⟩ := h.inn _ fam k hc hin hub
    have hwi := (F.si _ fam k hin).wi _ hli
    have i1 : owes ((s.inn (id / 100 - 1)).fire (id % 100) 0).w.trace (id % 100) = true :=
      owes_prod hwi hlrg
    have i2 : lastRes ((s.inn (id / 100 - 1)).fire (id % 100) 0).w.trace (id % 100) = some .pend := by
      simp only [Eng.fire_w]; rw [C16.lastRes_fire]; exact hlrg
    obtain ⟨fs, hfs⟩ := fire_ge nc s id 0 hid
    rw [hfs] at h' ⊢
    have hlo' : lastOut (leafSt s fs id 0).out.w.trace = some .pending := by
      rw [leafSt_out_w, lastOut_wfires]; exact hlo
    have hlr' : lastRes (leafSt s fs id 0).out.w.trace (id / 100 - 1) = some .pend := by
      rw [leafSt_out_w, C16.lastRes_fires]; exact hlr
    have j1 : owes ((leafSt s fs id 0).inn (id / 100 - 1)).w.trace (id % 100) = true := by
      rw [leafSt_inn_same]; exact i1
    have j2 : lastRes ((leafSt s fs id 0).inn (id / 100 - 1)).w.trace (id % 100) = some .pend := by
      rw [leafSt_inn_same]; exact i2
    have howed : Owed nc (leafSt s fs id 0) := by
      refine Or.inr ⟨id / 100 - 1, fam, k, id % 100, hc, hin, hg, hlr', j2, j1, ?_⟩
      rw [leafSt_inn_same]
      simp only [Eng.fire_w, World.fire_scripts]; exact hne
    refine ⟨hlo', ?_, howed⟩
    have hoc := outer_owes_of_leafS h' hc hin hlr' j2 j1
    obtain ⟨f', _, hInv'⟩ := h'.vo
    have hsp' := F.so.sp _ hInv'
    exact h'.ninv.fo.quiet_pt _ (alive_of_sp hsp') hlo' hlr' hoc

/-! ### executor rounds -/

theorem sbn_lo (h : SBN nc F s) :
    lastOut s.out.w.trace = none ∨ lastOut s.out.w.trace = some .pending ∨
      ∃ k vs, lastOut s.out.w.trace = some (.some k vs) := by
  obtain ⟨f, _, hInv⟩ := h.vo
  exact F.so.lo (setScripts s.out f) hInv

theorem round_pollS (h : SBN nc F s) (hsp : Exec.shouldPoll s.out.w.trace = true) :
    ExecN.round nc s = some (poll nc s (Exec.pollCount s.out.w.trace + 1)) := by
  unfold ExecN.round; rw [finalOut_lo3 (sbn_lo h), hsp]; simp

theorem round_fireS (h : SBN nc F s) (hsp : Exec.shouldPoll s.out.w.trace = false) (id : Nat)
    (hfw : ExecN.firstWaiting nc s = some id) : ExecN.round nc s = some (fire nc s id 0) := by
  unfold ExecN.round; rw [finalOut_lo3 (sbn_lo h), hsp, hfw]; simp

/-- the three phases of a run that has not ended -/
def CondS (nc : NCase) (s : St) (N : Nat) : Prop :=
  (Exec.shouldPoll s.out.w.trace = true ∧ 3 * muS nc s + 1 ≤ N) ∨
  (Exec.shouldPoll s.out.w.trace = false ∧ 3 * muS nc s ≤ N) ∨
  (Exec.shouldPoll s.out.w.trace = true ∧ Owed nc s ∧ 1 ≤ muS nc s ∧ 3 * muS nc s ≤ N + 1)

/-- the run has ended -/
def EndedN (nc : NCase) (k : Nat) (s : St) : Prop :=
  lastOut (ExecN.runFor nc k s).out.w.trace = some .none

theorem poll_roundS {N : Nat}
    (ih : ∀ s, SBN nc F s → CondS nc s N → ∃ k, k ≤ N ∧ EndedN nc k s)
    (h : SBN nc F s) (hsp : Exec.shouldPoll s.out.w.trace = true)
    (hE : (Owed nc s ∧ 3 * muS nc s ≤ N + 2) ∨ 3 * muS nc s ≤ N) :
    ∃ k, k ≤ N + 1 ∧ EndedN nc k s := by
  have hr := round_pollS h hsp
  rcases sbn_poll h (Exec.pollCount s.out.w.trace + 1) with hv | ⟨h', hle, hcase⟩
  · exact ⟨1, by omega, by simp only [EndedN, ExecN.runFor, hr]; exact hv⟩
  · have hcond : CondS nc (poll nc s (Exec.pollCount s.out.w.trace + 1)) N := by
      rcases hcase with ⟨hnp, hlt⟩ | ⟨hlo', hD, hEE⟩
      · left
        refine ⟨shouldPoll_not_pending (sbn_lo h') hnp, ?_⟩
        rcases hE with ⟨_, hb⟩ | hb <;> omega
      · have hsp' := shouldPoll_pending hlo'
        cases hw : wokeSince (poll nc s (Exec.pollCount s.out.w.trace + 1)).out.w.trace with
        | true =>
          left
          refine ⟨by rw [hsp', hw], ?_⟩
          rcases hE with ⟨ho, hb⟩ | hb
          · have := hEE ho; omega
          · rcases hD with hD | hD
            · omega
            · rw [hw] at hD; exact Bool.noConfusion hD
        | false =>
          right; left
          refine ⟨by rw [hsp', hw], ?_⟩
          rcases hE with ⟨ho, hb⟩ | hb
          · have := hEE ho; omega
          · omega
    obtain ⟨k, hk, hv⟩ := ih _ h' hcond
    exact ⟨k + 1, by omega, by simp only [EndedN, ExecN.runFor, hr]; exact hv⟩

theorem ends_auxS (hwf : ExecN.wellFormed nc = true) : ∀ (N : Nat) (s : St), SBN nc F s →
    CondS nc s N → ∃ k, k ≤ N ∧ EndedN nc k s := by
  intro N
  induction N with
  | zero =>
    intro s h hc
    rcases hc with ⟨_, h1⟩ | ⟨hsp, h1⟩ | ⟨_, _, h1, h2⟩
    · omega
    · obtain ⟨hlo, _⟩ := shouldPoll_false_pending3 (sbn_lo h) hsp
      obtain ⟨id, _, hw⟩ := waiting_someS h hwf hlo
      have := muS_pos_of_waiting hw
      omega
    · omega
  | succ N ih =>
    intro s h hc
    rcases hc with ⟨hsp, h1⟩ | ⟨hsp, h1⟩ | ⟨hsp, hwit, h1, h2⟩
    · exact poll_roundS ih h hsp (Or.inr (by omega))
    · obtain ⟨hlo, _⟩ := shouldPoll_false_pending3 (sbn_lo h) hsp
      obtain ⟨id, hfw, hw⟩ := waiting_someS h hwf hlo
      have hr := round_fireS h hsp id hfw
      obtain ⟨h', hlo', hwk, howed⟩ := sbn_prod h hlo hw
      have hpos := muS_pos_of_waiting hw
      have hcond : CondS nc (fire nc s id 0) N := by
        right; right
        refine ⟨by rw [shouldPoll_pending hlo', hwk], howed, ?_, ?_⟩
        · rw [muS_fire]; exact hpos
        · rw [muS_fire]; omega
      obtain ⟨k, hk, hv⟩ := ih _ h' hcond
      exact ⟨k + 1, by omega, by simp only [EndedN, ExecN.runFor, hr]; exact hv⟩
    · exact poll_roundS ih h hsp (Or.inl ⟨hwit, by omega⟩)

/-- every run from a state satisfying the invariant ends within `3 * muS + 1` rounds -/
theorem ends_of_sbn (hwf : ExecN.wellFormed nc = true) (h : SBN nc F s)
    (hsp : Exec.shouldPoll s.out.w.trace = true) :
    ∃ k, k ≤ 3 * muS nc s + 1 ∧ EndedN nc k s :=
  ends_auxS hwf _ s h (Or.inl ⟨hsp, Nat.le_refl _⟩)

end LiveN
end Fc
