/-
  FcLemmas/LiveGObs.lean — liveness of the groups: well-behaved member scripts (futures for a
  FutureGroup, streams for a StreamGroup), and the World-aware parts of the run invariant with their
  preservation by one member poll:

  * `WG`: every current member follows a well-behaved script, has answered `Pending` / an item / was
    never polled, and was not released; the waker list `handed` matches the ghost `lastWk`;
  * `PB`: progress bookkeeping of the poll in progress relative to the script lengths `len0` and the
    trace `t0` at its start (no script has grown, a member polled in this poll has consumed a step,
    the task waker was only invoked after some member was polled, a member released in this poll was
    polled in it);
  * `IBG`: the readiness side — a member that was never polled or that just yielded an item has the
    bit of its slot set (insert arms the slot, the StreamGroup re-arms it after an item), and every
    member in a slot the scan has passed is waiting.
-/
import FcLemmas.Live3Loop
import FcLemmas.GrpFinal
import FcLemmas.LiveGRun
set_option linter.unusedSimpArgs false
set_option linter.unusedVariables false

namespace Fc

/-- a well-behaved member script: a future for a FutureGroup, a stream for a StreamGroup -/
def wbScript (stream : Bool) (l : List Step) : Bool :=
  if stream then streamScript l else Exec.futureScript l

namespace LiveG
open Mon Live Live3

/-! ### well-behaved scripts -/

theorem wb_ne_nil {stream : Bool} (l : List Step) (h : wbScript stream l = true) : l ≠ [] := by
  intro hn; subst hn
  cases stream <;> exact Bool.noConfusion h

theorem wb_cons {stream : Bool} (s : Step) (rest : List Step) (h : wbScript stream (s :: rest) = true) :
    (rest = [] ∧ ((stream = true ∧ s.res = .fin) ∨ (stream = false ∧ ∃ ok v, s.res = .ready ok v))) ∨
    (rest ≠ [] ∧ (s.res = .pend ∨ (stream = true ∧ ∃ v, s.res = .item v)) ∧
      wbScript stream rest = true) := by
  cases stream with
  | true =>
    rcases ss_cons s rest h with ⟨h1, h2⟩ | ⟨h1, h2, h3⟩
    · exact Or.inl ⟨h1, Or.inl ⟨rfl, h2⟩⟩
    · refine Or.inr ⟨h1, ?_, h3⟩
      rcases h2 with h2 | h2
      · exact Or.inl h2
      · exact Or.inr ⟨rfl, h2⟩
  | false =>
    rcases fs_cons s rest h with ⟨h1, h2⟩ | ⟨h1, h2, h3⟩
    · exact Or.inl ⟨h1, Or.inr ⟨rfl, h2⟩⟩
    · exact Or.inr ⟨h1, Or.inl h2, h3⟩

/-- every step of a well-behaved script is of the kind of its group -/
theorem wb_fits {stream : Bool} : ∀ (l : List Step), wbScript stream l = true →
    ∀ st ∈ l, st.res.fits stream = true := by
  intro l
  induction l with
  | nil => intro _ st hst; cases hst
  | cons s rest ih =>
    intro h st hst
    rcases wb_cons s rest h with ⟨h1, h2⟩ | ⟨h1, h2, h3⟩
    · subst h1
      simp only [List.mem_singleton] at hst
      subst hst
      rcases h2 with ⟨hs, hr⟩ | ⟨hs, ok, v, hr⟩ <;> subst hs <;> rw [hr] <;> rfl
    · rcases List.mem_cons.mp hst with rfl | hst
      · rcases h2 with hr | ⟨hs, v, hr⟩
        · rw [hr]; rfl
        · subst hs; rw [hr]; rfl
      · exact ih h3 st hst

/-- what a member that follows a well-behaved script answers next -/
theorem wb_resOf {stream : Bool} (w : World) (c : Nat) (h : wbScript stream (w.scripts c) = true) :
    ((w.scripts c).tail = [] ∧ (w.resOf c = .fin ∨ ∃ ok v, w.resOf c = .ready ok v)) ∨
    ((w.scripts c).tail ≠ [] ∧ (w.resOf c = .pend ∨ ∃ v, w.resOf c = .item v) ∧
      wbScript stream (w.scripts c).tail = true) := by
  unfold World.resOf World.stepOf
  cases hs : w.scripts c with
  | nil => rw [hs] at h; exact absurd rfl (wb_ne_nil _ h)
  | cons s rest =>
    rw [hs] at h
    rcases wb_cons s rest h with ⟨h1, h2⟩ | ⟨h1, h2, h3⟩
    · left
      refine ⟨h1, ?_⟩
      rcases h2 with ⟨_, hr⟩ | ⟨_, hr⟩
      · exact Or.inl hr
      · exact Or.inr hr
    · right
      refine ⟨h1, ?_, h3⟩
      rcases h2 with hr | ⟨_, hr⟩
      · exact Or.inl hr
      · exact Or.inr hr

/-! ### the members -/

structure WG (stream : Bool) (mem : Nat → Option Nat) (w : World) : Prop where
  mem : ∀ k c, mem k = some c →
    wbScript stream (w.scripts c) = true ∧ Act (lastRes w.trace c) ∧ gone w.trace c = false
  hw  : ∀ c, (w.handed c).head? = lastWk w.trace c
  lw  : ∀ c, lastRes w.trace c ≠ none → lastWk w.trace c ≠ none
  ep  : ∀ c, everPolled w.trace c = true → lastRes w.trace c ≠ none

theorem wg_congr {stream : Bool} {mem : Nat → Option Nat} {w w' : World}
    (hs : w'.scripts = w.scripts) (hh : w'.handed = w.handed) (ht : w'.trace = w.trace)
    (h : WG stream mem w) : WG stream mem w' :=
  ⟨by rw [hs, ht]; exact h.mem, by rw [hh, ht]; exact h.hw, by rw [ht]; exact h.lw,
    by rw [ht]; exact h.ep⟩

theorem wg_sub {stream : Bool} {mem mem' : Nat → Option Nat} {w : World}
    (hm : ∀ k c, mem' k = some c → mem k = some c) (h : WG stream mem w) : WG stream mem' w :=
  ⟨fun k c hk => h.mem k c (hm k c hk), h.hw, h.lw, h.ep⟩

/-- events the member observations do not look at -/
def wgNeutral : Ev → Bool
  | .childBegin _ _ _ | .childEnd _ _ | .childDropped _ => false
  | _ => true

theorem wg_emit {stream : Bool} {mem : Nat → Option Nat} {w : World} (e : Ev)
    (hn : wgNeutral e = true) (h : WG stream mem w) : WG stream mem (w.emit e) := by
  have h1 : ∀ c, lastRes (e :: w.trace) c = lastRes w.trace c := by
    intro c; cases e <;> simp_all [wgNeutral, lastRes]
  have h2 : ∀ c, lastWk (e :: w.trace) c = lastWk w.trace c := by
    intro c; cases e <;> simp_all [wgNeutral, lastWk]
  have h3 : ∀ c, gone (e :: w.trace) c = gone w.trace c := by
    intro c; cases e <;> simp_all [wgNeutral, gone]
  have h4 : ∀ c, everPolled (e :: w.trace) c = everPolled w.trace c := by
    intro c; cases e <;> simp_all [wgNeutral, everPolled]
  refine ⟨?_, ?_, ?_, ?_⟩
  · intro k c hk; simp only [World.emit_trace, World.emit_scripts, h1, h3]; exact h.mem k c hk
  · intro c; simp only [World.emit_trace, World.emit_handed, h2]; exact h.hw c
  · intro c; simp only [World.emit_trace, h1, h2]; exact h.lw c
  · intro c; simp only [World.emit_trace, h1, h4]; exact h.ep c

/-- polling the member `c` of slot `k` -/
theorem wg_pollChild {stream : Bool} {mem : Nat → Option Nat} (w : World) (c k : Nat)
    (hm : mem k = some c) (inj : ∀ k', mem k' = some c → k' = k) (h : WG stream mem w) :
    w.resOf c ≠ .panic ∧ w.scripts c ≠ [] ∧
    ((w.resOf c = .pend ∨ ∃ v, w.resOf c = .item v) → WG stream mem (w.pollChild c k)) ∧
    WG stream (upd mem k none) (w.pollChild c k) := by
  obtain ⟨hwb, hact, hgone⟩ := h.mem k c hm
  have hres := wb_resOf w c hwb
  have hnp : w.resOf c ≠ .panic := by
    rcases hres with ⟨_, hr | ⟨ok, v, hr⟩⟩ | ⟨_, hr | ⟨v, hr⟩, _⟩ <;> rw [hr] <;> simp
  have hS : ∀ j, (w.pollChild c k).scripts j = if j = c then (w.scripts c).tail else w.scripts j := by
    intro j
    rw [pollChild_scripts]
    by_cases hj : j = c
    · subst hj; simp
    · simp [upd_other _ _ _ _ hj, hj]
  have hLR : ∀ j, lastRes (w.pollChild c k).trace j
      = if c = j then some (w.resOf c) else lastRes w.trace j := fun j => C16.lastRes_pollChild w c k j
  have hLW : ∀ j, lastWk (w.pollChild c k).trace j
      = if c = j then some (w.wakerFor k) else lastWk w.trace j := fun j => lastWk_pollChild w c k j
  have hEP : ∀ j, everPolled (w.pollChild c k).trace j = (decide (c = j) || everPolled w.trace j) :=
    fun j => everPolled_pollChild w c k j
  have hG : ∀ j, gone (w.pollChild c k).trace j = gone w.trace j := fun j => gone_pollChild w c k j
  have hHW : ∀ j, ((w.pollChild c k).handed j).head? = lastWk (w.pollChild c k).trace j := by
    intro j
    rw [hLW, pollChild_handed]
    by_cases hj : c = j
    · subst hj; simp
    · have hjc : j ≠ c := fun hh => hj hh.symm
      simp only [hj, if_false, upd_other _ _ _ _ hjc]
      exact h.hw j
  have hLWn : ∀ j, lastRes (w.pollChild c k).trace j ≠ none → lastWk (w.pollChild c k).trace j ≠ none := by
    intro j hj
    rw [hLR] at hj
    rw [hLW]
    by_cases hcj : c = j
    · simp [hcj]
    · simp only [hcj, if_false] at hj ⊢
      exact h.lw j hj
  have hEPn : ∀ j, everPolled (w.pollChild c k).trace j = true → lastRes (w.pollChild c k).trace j ≠ none := by
    intro j hj
    rw [hEP] at hj
    rw [hLR]
    by_cases hcj : c = j
    · simp [hcj]
    · simp only [hcj, decide_false, Bool.false_or, if_false] at hj ⊢
      exact h.ep j hj
  have hother : ∀ k' c', c' ≠ c → mem k' = some c' →
      wbScript stream ((w.pollChild c k).scripts c') = true ∧ Act (lastRes (w.pollChild c k).trace c') ∧
        gone (w.pollChild c k).trace c' = false := by
    intro k' c' hcc hk'
    have hcc' : ¬ c = c' := fun hh => hcc hh.symm
    rw [hS, hLR, hG]
    simp only [hcc, hcc', if_false]
    exact h.mem k' c' hk'
  refine ⟨hnp, wb_ne_nil _ hwb, ?_, ?_⟩
  · intro hr
    refine ⟨?_, hHW, hLWn, hEPn⟩
    intro k' c' hk'
    by_cases hcc : c' = c
    · subst hcc
      rw [hS, hLR, hG]
      simp only [if_true]
      rcases hres with ⟨_, hf | ⟨ok, v, hf⟩⟩ | ⟨_, _, hwt⟩
      · rcases hr with hr | ⟨v, hr⟩ <;> rw [hf] at hr <;> cases hr
      · rcases hr with hr | ⟨v', hr⟩ <;> rw [hf] at hr <;> cases hr
      · refine ⟨hwt, ?_, hgone⟩
        rcases hr with hr | ⟨v, hr⟩
        · exact Or.inr (Or.inl (by rw [hr]))
        · exact Or.inr (Or.inr ⟨v, by rw [hr]⟩)
    · exact hother k' c' hcc hk'
  · refine ⟨?_, hHW, hLWn, hEPn⟩
    intro k' c' hk'
    have hkk : k' ≠ k := by intro hh; subst hh; simp at hk'
    rw [upd_other _ _ _ _ hkk] at hk'
    have hcc : c' ≠ c := by intro hh; subst hh; exact hkk (inj k' hk')
    exact hother k' c' hcc hk'

/-- the released member is dropped -/
theorem wg_dropped {stream : Bool} {mem : Nat → Option Nat} (w : World) (c : Nat)
    (hnm : ∀ k, mem k ≠ some c) (h : WG stream mem w) :
    WG stream mem (w.emits [.childDropped c]) := by
  refine ⟨?_, ?_, ?_, ?_⟩
  · intro k c' hk
    have hcc : ¬ c = c' := by intro hh; subst hh; exact hnm k hk
    have := h.mem k c' hk
    simpa [World.emits, lastRes, gone, hcc] using this
  · intro j; simpa [World.emits, lastWk] using h.hw j
  · intro j; simpa [World.emits, lastRes, lastWk] using h.lw j
  · intro j; simpa [World.emits, lastRes, everPolled] using h.ep j

/-- a wake-up between polls -/
theorem wg_fire {stream : Bool} {mem : Nat → Option Nat} (w : World) (c a : Nat)
    (h : WG stream mem w) : WG stream mem (w.fire c a) := by
  obtain ⟨l, hl, hp⟩ := World.fire_seg w c a
  have hLR : ∀ j, lastRes (w.fire c a).trace j = lastRes w.trace j := C16.lastRes_fire w c a
  have hLW : ∀ j, lastWk (w.fire c a).trace j = lastWk w.trace j := by
    intro j; rw [hl]
    exact skip_seg (fun t => lastWk t j) isFireEv (fun e t h => lastWk_fireEv j e t h) l hp _
  refine ⟨?_, ?_, ?_, ?_⟩
  · intro k j hk
    have hg : gone (w.fire c a).trace j = gone w.trace j := by rw [hl]; exact gone_fires l _ j hp
    rw [hLR, World.fire_scripts, hg]; exact h.mem k j hk
  · intro j; rw [hLW, World.fire_handed]; exact h.hw j
  · intro j; rw [hLR, hLW]; exact h.lw j
  · intro j; rw [hLR, everPolled_fire]; exact h.ep j

/-! ### progress bookkeeping of the poll in progress -/

structure PB (len0 : Nat → Nat) (t0 : List Ev) (w : World) : Prop where
  le : ∀ c, (w.scripts c).length ≤ len0 c
  ps : ∀ c, polledSince w.trace c = true → keyOf w.trace c ≠ none ∧ (w.scripts c).length < len0 c
  wk : wokeSince w.trace = true → ∃ c, polledSince w.trace c = true
  ab : atPollBegin w.trace = t0
  gp : ∀ c, gone w.trace c = true → gone t0 c = true ∨ polledSince w.trace c = true
  al : alive w.trace = true
  ip : inPoll w.trace = true

theorem pb_congr {len0 : Nat → Nat} {t0 : List Ev} {w w' : World}
    (hs : w'.scripts = w.scripts) (ht : w'.trace = w.trace) (h : PB len0 t0 w) : PB len0 t0 w' :=
  ⟨by rw [hs]; exact h.le, by rw [hs, ht]; exact h.ps, by rw [ht]; exact h.wk, by rw [ht]; exact h.ab,
    by rw [ht]; exact h.gp, by rw [ht]; exact h.al, by rw [ht]; exact h.ip⟩

theorem wokeSince_pollChild_polled (w : World) (c k : Nat) :
    polledSince (w.pollChild c k).trace c = true := by
  rw [polledSince_pollChild]; simp

theorem alive_pollChild (w : World) (c k : Nat) : alive (w.pollChild c k).trace = alive w.trace := by
  obtain ⟨l, hl, hp⟩ := World.pollChild_seg w c k
  rw [hl]
  simp only [alive]
  rw [alive_fires l _ hp]
  simp [alive]

theorem inPoll_pollChild (w : World) (c k : Nat) : inPoll (w.pollChild c k).trace = inPoll w.trace := by
  obtain ⟨l, hl, hp⟩ := World.pollChild_seg w c k
  rw [hl]
  simp only [inPoll]
  rw [inPoll_fires l _ hp]
  simp [inPoll]

theorem pb_pollChild {len0 : Nat → Nat} {t0 : List Ev} (w : World) (c k : Nat)
    (hne : w.scripts c ≠ []) (hkey : keyOf w.trace c ≠ none) (h : PB len0 t0 w) :
    PB len0 t0 (w.pollChild c k) := by
  have hS : ∀ j, (w.pollChild c k).scripts j = if j = c then (w.scripts c).tail else w.scripts j := by
    intro j
    rw [pollChild_scripts]
    by_cases hj : j = c
    · subst hj; simp
    · simp [upd_other _ _ _ _ hj, hj]
  have hlen : (w.scripts c).tail.length < (w.scripts c).length := by
    cases hs : w.scripts c with
    | nil => exact absurd hs hne
    | cons s rest => simp
  have hPS : ∀ j, polledSince (w.pollChild c k).trace j = (decide (c = j) || polledSince w.trace j) :=
    fun j => polledSince_pollChild w c k j
  refine ⟨?_, ?_, ?_, ?_, ?_, ?_, ?_⟩
  · intro j
    rw [hS]
    by_cases hj : j = c
    · subst hj; simp only [if_true]; have := h.le j; omega
    · simp only [hj, if_false]; exact h.le j
  · intro j hj
    rw [hPS] at hj
    rw [hS, G.keyOf_pollChild]
    by_cases hjc : j = c
    · subst hjc; simp only [if_true]; have := h.le j; exact ⟨hkey, by omega⟩
    · have hcj : ¬ c = j := fun hh => hjc hh.symm
      simp only [hcj, decide_false, Bool.false_or] at hj
      simp only [hjc, if_false]
      exact h.ps j hj
  · intro _; exact ⟨c, wokeSince_pollChild_polled w c k⟩
  · rw [atPollBegin_pollChild]; exact h.ab
  · intro j hj
    rw [gone_pollChild] at hj
    rcases h.gp j hj with hg | hg
    · exact Or.inl hg
    · right; rw [hPS, hg]; simp
  · rw [alive_pollChild]; exact h.al
  · rw [inPoll_pollChild]; exact h.ip

theorem pb_dropped {len0 : Nat → Nat} {t0 : List Ev} (w : World) (c : Nat)
    (hp : polledSince w.trace c = true) (h : PB len0 t0 w) :
    PB len0 t0 (w.emits [.childDropped c]) := by
  refine ⟨h.le, ?_, ?_, ?_, ?_, ?_, ?_⟩
  · intro j hj; simpa [World.emits, polledSince, keyOf] using h.ps j (by simpa [World.emits, polledSince] using hj)
  · intro hw
    obtain ⟨j, hj⟩ := h.wk (by simpa [World.emits, wokeSince] using hw)
    exact ⟨j, by simpa [World.emits, polledSince] using hj⟩
  · simpa [World.emits, atPollBegin] using h.ab
  · intro j hj
    simp only [World.emits, List.reverse_cons, List.reverse_nil, List.nil_append, List.singleton_append,
      gone, Bool.or_eq_true, decide_eq_true_eq, polledSince] at hj ⊢
    rcases hj with hj | hj
    · subst hj; exact Or.inr hp
    · exact h.gp j hj
  · simpa [World.emits, alive] using h.al
  · simpa [World.emits, inPoll] using h.ip

theorem pb_begin (w : World) (wid : Nat) (hal : alive w.trace = true) :
    PB (fun c => (w.scripts c).length) w.trace ((w.emit (.pollBegin wid)).setWaker wid) := by
  refine ⟨fun c => Nat.le_refl _, ?_, ?_, rfl, ?_, ?_, rfl⟩
  · intro c hc; simp [polledSince] at hc
  · intro hc; simp [wokeSince] at hc
  · intro c hc; left; simpa [gone] using hc
  · simpa [alive] using hal

/-! ### the readiness side -/

/-- `V` = slots already scanned -/
structure IBG (mem : Nat → Option Nat) (w : World) (V : Nat → Prop) : Prop where
  a : ∀ k c, mem k = some c → Needy (lastRes w.trace c) → w.isSet k = true
  v : ∀ k c, V k → mem k = some c → lastRes w.trace c = some .pend

theorem ibg_mono {mem : Nat → Option Nat} {w : World} {V V' : Nat → Prop} (hv : ∀ k, V' k → V k)
    (h : IBG mem w V) : IBG mem w V' :=
  ⟨h.a, fun k c hk => h.v k c (hv k hk)⟩

theorem isSet_false_clearReady (w : World) (k : Nat) (h : w.isSet k = false) : w.clearReady k = w := by
  cases hm : w.mode with
  | direct => rw [World.isSet_direct _ _ hm] at h; exact Bool.noConfusion h
  | std =>
    rw [World.isSet_std _ _ hm] at h
    exact G.clearReady_noop w k hm h

/-- what polling the member of slot `k` (bit cleared first) does to the other members -/
theorem ibg_polled_other {mem : Nat → Option Nat} {V : Nat → Prop} (w : World) (c k : Nat)
    (hm : mem k = some c) (inj : ∀ k', mem k' = some c → k' = k) (h : IBG mem w V) :
    ∀ k' c', k' ≠ k → mem k' = some c' →
      (Needy (lastRes ((w.clearReady k).pollChild c k).trace c') →
        ((w.clearReady k).pollChild c k).isSet k' = true) ∧
      (V k' → lastRes ((w.clearReady k).pollChild c k).trace c' = some .pend) := by
  intro k' c' hkk hk'
  have hcc : ¬ c = c' := by intro hh; subst hh; exact hkk (inj k' hk')
  have hlr : lastRes ((w.clearReady k).pollChild c k).trace c' = lastRes w.trace c' := by
    rw [C16.lastRes_pollChild]; simp [hcc]
  rw [hlr]
  refine ⟨fun hn => ?_, fun hv => h.v k' c' hv hk'⟩
  refine World.isSet_pollChild_mono _ _ _ _ ?_
  rw [World.isSet_clearReady_other _ _ _ hkk]
  exact h.a k' c' hk' hn

end LiveG
end Fc
