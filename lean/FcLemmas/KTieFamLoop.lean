/-
  Kernel tie, fixed families — generic pieces:
    * `Idx.IndexIter.collect` (what the translated `for` loop iterates over) yields the model's rotated order;
    * `Rs.forCtl` over a list refines `Eng.scan` when one iteration refines `Eng.visit` (`forCtl_scan`);
    * `bind_spec`: sequencing in the Option monad.
-/
import FcGen.KSrcIdx
import FcProps.KTieIdx
import Fc.Engine
import Fc.Families
import FcLemmas.KTieLoopCore

set_option linter.unusedSimpArgs false
set_option linter.unusedVariables false

namespace Fc
open Rs Src

namespace TieLoop

/-! ### the index list -/

theorem collect_eq_drain (fuel : Nat) (it : Idx.IndexIter) :
    Idx.IndexIter.collect fuel it = TieIdx.drain fuel it := by
  induction fuel generalizing it with
  | zero => rfl
  | succ f ih =>
    unfold Idx.IndexIter.collect TieIdx.drain
    cases h : Idx.IndexIter.next it with
    | none => rfl
    | some p =>
      obtain ⟨it', o⟩ := p
      cases o <;> simp [ih]

/-- `Indexer::iter` followed by draining the iterator: the rotated order of the model, and the offset is bumped -/
theorem iter_collect (ix : Idx.Indexer) (hn : 0 < ix.roleMax) :
    ∃ ix' it, Idx.Indexer.iter ix = some (ix', it) ∧
      ix'.roleOffset = (ix.roleOffset + 1) % ix.roleMax ∧ ix'.roleMax = ix.roleMax ∧
      Idx.IndexIter.collect (Idx.Indexer.fuel ix) it =
        some ((List.range ix.roleMax).map (fun k => (k + ix.roleOffset) % ix.roleMax)) := by
  obtain ⟨o, m⟩ := ix
  simp only [Idx.Indexer.roleMax, Idx.Indexer.roleOffset] at *
  have hne : m ≠ 0 := by omega
  have hd := TieIdx.drain_eq o m 0 (Nat.zero_le _) hn (o + m + 1) (by omega)
  refine ⟨⟨(o + 1) % m, m⟩, ⟨⟨0, m⟩, o⟩, ?_, rfl, rfl, ?_⟩
  · simp [Idx.Indexer.iter, uadd, urem, hne]
  · rw [collect_eq_drain]
    simpa [Idx.Indexer.fuel, List.range_eq_range'] using hd

/-! ### sequencing -/

end TieLoop

end Fc
