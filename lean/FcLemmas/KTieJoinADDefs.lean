/-
  FcLemmas/KTieJoinADDefs.lean — array join, no_std / alloc-only flavour (`JoinAD`, FcGen/KSrcArr1D.lean): the relation
  between a translated `Join` + environment and a model state (in `direct` mode) that the scan of `poll` maintains
  (`RelJ`), what one iteration has to do (`StepSpecJ`: it is one `Eng.visit joinSlice` that never leaves the loop), and
  the loop (`Rs.forBreak` over the slots = `Eng.scan joinSlice`).  Port of FcLemmas/KTieJoinADefs.lean (std flavour): the
  clauses about the flag table are gone.  The container- and flavour-independent lemmas of FcLemmas/KTieJoinDefs.lean
  (list facts, `FutStepsF.*`, the primitives of the completion path, `forBreak_*`, the model side `TieJoinV.visit_*J`)
  are imported, not copied.  Namespace `TieJoinAD` (fresh).
-/
import FcProps.KTieJoinDir
import FcLemmas.KTieJoinDefs
import FcLemmas.KTieJoinADEnv

set_option linter.unusedSimpArgs false
set_option linter.unusedVariables false

namespace Fc
open Rs Src

namespace TieJoinAD
open JoinAD

/-- the translated combinator `g` with the environment `env` is read as the model state `e` (inside a poll: a parent
    waker is stored, the join has not completed; the readiness fields of the environment, which nobody writes, are those of `b0`) -/
structure RelJ (n o : Nat) (b0 : World) (e : Eng Fix) (g : Join) (env : World) : Prop where
  ew : e.w = TieDir.absA g.roleWakers.readiness env
  en : e.s.n = n
  kids : g.roleKids.len = n
  st : e.s.st = fun i => TiePS.abs (g.roleStates.get i)
  out : e.s.out = g.roleItems.get
  cnt : e.s.cnt = g.roleCount
  off : e.s.off = o
  dead : e.s.dead = false
  done : g.roleDone = false
  sl : g.roleStates.len = n
  ic : g.roleItems.cap = n
  pc : g.roleCount = ((List.range n).filter (fun i => g.roleStates.get i = PS.PollState.pending)).length
  rs : ∀ i, i < n → (g.roleStates.get i = PS.PollState.pending ∨
        (g.roleStates.get i = PS.PollState.ready ∧ ∃ v, g.roleItems.get i = some v))
  par : g.roleWakers.readiness.roleParent ≠ none
  hin : HandedIn n b0 → HandedIn n env
  sok : FutStepsF env
  fr : Env.SameRd b0 env

abbrev BodyJ := Join × World → Nat → Option ((Join × World) × Bool)

/-- one iteration of the loop body is one `Eng.visit joinSlice`; the loop is never left early -/
def StepSpecJ (n o : Nat) (b0 : World) (F : BodyJ) : Prop :=
  ∀ (e : Eng Fix) (g : Join) (env : World) (i : Nat), RelJ n o b0 e g env → i < n →
    ∃ g' env', F (g, env) i = some ((g', env'), false) ∧ RelJ n o b0 (Eng.visit joinSlice e i).1 g' env' ∧
      (Eng.visit joinSlice e i).2 = none

/-- the loop over a list of slots is `Eng.scan joinSlice` -/
theorem loop_tieJ (n o : Nat) (b0 : World) (F : BodyJ) (hF : StepSpecJ n o b0 F) (l : List Nat) :
    ∀ (e : Eng Fix) (g : Join) (env : World), RelJ n o b0 e g env → (∀ i ∈ l, i < n) →
    ∃ g' env', Rs.forBreak l (g, env) F = some (g', env') ∧ RelJ n o b0 (Eng.scan joinSlice l e).1 g' env' ∧
      (Eng.scan joinSlice l e).2 = none := by
  induction l with
  | nil =>
    intro e g env hR _
    exact ⟨g, env, rfl, hR, rfl⟩
  | cons i l ih =>
    intro e g env hR hl
    obtain ⟨g1, env1, h1, hR1, hv⟩ := hF e g env i hR (hl i (List.mem_cons_self ..))
    obtain ⟨g2, env2, h2, hR2, hv2⟩ := ih (Eng.visit joinSlice e i).1 g1 env1 hR1
      (fun j hj => hl j (List.mem_cons_of_mem _ hj))
    refine ⟨g2, env2, ?_, ?_, ?_⟩
    · simp only [Rs.forBreak, h1, h2]
    · simp only [Eng.scan, hv]; exact hR2
    · simp only [Eng.scan, hv]; exact hv2

/-- the loop followed by the code after it (`K`): it is enough to run `K` on what `Eng.scan joinSlice` describes -/
theorem loop_bindJ {τ : Type} (n o : Nat) (b0 : World) (F : BodyJ) (hF : StepSpecJ n o b0 F) (l : List Nat) (e : Eng Fix) (g : Join)
    (env : World) (hR : RelJ n o b0 e g env) (hl : ∀ i ∈ l, i < n)
    (K : Join × World → Option τ) (Ψ : τ → Prop)
    (hK : ∀ g' env', RelJ n o b0 (Eng.scan joinSlice l e).1 g' env' → (Eng.scan joinSlice l e).2 = none →
      ∃ a, K (g', env') = some a ∧ Ψ a) :
    ∃ a, (Rs.forBreak l (g, env) F).bind K = some a ∧ Ψ a := by
  obtain ⟨g', env', h1, hR', hv⟩ := loop_tieJ n o b0 F hF l e g env hR hl
  rw [h1, Option.bind_some]
  exact hK g' env' hR' hv

end TieJoinAD
end Fc
