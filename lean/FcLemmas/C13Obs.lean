/-
  FcLemmas/C13Obs.lean — how the trace observations of Fc/CoMon.lean see one more event, and a
  few list facts (members of `setMember`, counting through an injection).
-/
import Fc.CoMon

set_option linter.unusedSimpArgs false
set_option linter.unusedVariables false

namespace Fc
namespace CoC13
open Co

/-! ### quiet events: no observation except `srcEnded` changes -/

/-- events that change no observation used by C13 (except `srcEnded` for `src fin`) -/
def quiet : CoEv → Bool
  | .call _ _ _ _ => false
  | .work _ (.ready _ _) => false
  | .workDrop _ => false
  | .src (.item _) => false
  | _ => true

theorem calls_quiet (e : CoEv) (t : List CoEv) (h : quiet e = true) (st j : Nat) :
    calls (e :: t) st j = calls t st j := by
  cases e <;> simp_all [quiet, calls]

theorem futOf_quiet (e : CoEv) (t : List CoEv) (h : quiet e = true) (st j : Nat) :
    futOf (e :: t) st j = futOf t st j := by
  cases e <;> simp_all [quiet, futOf]

theorem resultOf_quiet (e : CoEv) (t : List CoEv) (h : quiet e = true) (k : Nat) :
    resultOf (e :: t) k = resultOf t k := by
  cases e with
  | work k' r => cases r <;> simp_all [quiet, resultOf]
  | _ => simp_all [quiet, resultOf]

theorem created_quiet (e : CoEv) (t : List CoEv) (h : quiet e = true) :
    created (e :: t) = created t := by
  cases e <;> simp_all [quiet, created]

theorem droppedW_quiet (e : CoEv) (t : List CoEv) (h : quiet e = true) (k : Nat) :
    droppedW (e :: t) k = droppedW t k := by
  cases e <;> simp_all [quiet, droppedW]

theorem takenItems_quiet (e : CoEv) (t : List CoEv) (h : quiet e = true) :
    takenItems (e :: t) = takenItems t := by
  cases e with
  | src r => cases r <;> simp_all [quiet, takenItems]
  | _ => simp_all [quiet, takenItems]

theorem srcEnded_quiet (e : CoEv) (t : List CoEv) (h : quiet e = true)
    (hs : srcEnded t = true) : srcEnded (e :: t) = true := by
  cases e with
  | src r => cases r <;> simp_all [quiet, srcEnded]
  | _ => simp_all [quiet, srcEnded]

theorem stageDone_quiet (e : CoEv) (t : List CoEv) (h : quiet e = true) (st j : Nat) :
    stageDone (e :: t) st j = stageDone t st j := by
  unfold stageDone
  rw [calls_quiet e t h, futOf_quiet e t h]
  cases futOf t st j with
  | none => rfl
  | some k => simp only [resultOf_quiet e t h]

theorem drained_quiet (c : Cfg) (e : CoEv) (t : List CoEv) (h : quiet e = true)
    (hd : drained c t = true) : drained c (e :: t) = true := by
  unfold drained at *
  rw [takenItems_quiet e t h]
  cases hs : srcEnded t with
  | true => simp [srcEnded_quiet e t h hs]
  | false => simp_all

/-! ### `stageDone` across the loud events -/

theorem stageDone_call_ne (t : List CoEv) (stage j : Nat) (idx : List Nat) (k st j' : Nat)
    (h : ¬ (stage = st ∧ j = j')) :
    stageDone (.call stage j idx k :: t) st j' = stageDone t st j' := by
  unfold stageDone
  simp only [calls, futOf, h, if_false, Nat.add_zero]
  cases futOf t st j' with
  | none => rfl
  | some k' => simp [resultOf]

theorem stageDone_work_mono (t : List CoEv) (k : Nat) (r : Res) (st j : Nat)
    (h : stageDone t st j = true) : stageDone (.work k r :: t) st j = true := by
  unfold stageDone at *
  have hc : calls (.work k r :: t) st j = calls t st j := by simp [calls]
  have hf : futOf (.work k r :: t) st j = futOf t st j := by simp [futOf]
  rw [hc, hf]
  cases hfo : futOf t st j with
  | none => simp [hfo] at h
  | some k' =>
    simp only [hfo, Bool.and_eq_true] at h ⊢
    refine ⟨h.1, ?_⟩
    cases r with
    | ready ok v =>
      simp only [resultOf]
      split
      · rfl
      · exact h.2
    | _ => simpa [resultOf] using h.2

theorem stageDone_work_now (t : List CoEv) (k : Nat) (ok : Bool) (v : Nat) (st j : Nat)
    (hc : calls t st j = 1) (hf : futOf t st j = some k) :
    stageDone (.work k (.ready ok v) :: t) st j = true := by
  unfold stageDone
  simp [calls, futOf, hc, hf, resultOf]

theorem stageDone_workDrop (t : List CoEv) (k st j : Nat) :
    stageDone (.workDrop k :: t) st j = stageDone t st j := by
  unfold stageDone
  simp only [calls, futOf]
  cases futOf t st j with
  | none => rfl
  | some k' => simp [resultOf]

theorem stageDone_srcItem (t : List CoEv) (v st j : Nat) :
    stageDone (.src (.item v) :: t) st j = stageDone t st j := by
  unfold stageDone
  simp only [calls, futOf]
  cases futOf t st j with
  | none => rfl
  | some k' => simp [resultOf]

/-! ### list facts -/

theorem mem_setMember {ms : List Member} {m m' x : Member} :
    x ∈ setMember ms m m' ↔ (x ∈ ms ∧ x ≠ m) ∨ (x = m' ∧ m ∈ ms) := by
  unfold setMember
  simp only [List.mem_map]
  constructor
  · rintro ⟨y, hy, rfl⟩
    by_cases h : y = m
    · subst h; simp [hy]
    · simp [h, hy]
  · rintro (⟨hx, hne⟩ | ⟨rfl, hm⟩)
    · exact ⟨x, hx, by simp [hne]⟩
    · exact ⟨m, hm, by simp⟩

theorem length_setMember (ms : List Member) (m m' : Member) :
    (setMember ms m m').length = ms.length := by
  simp [setMember]

theorem length_filter_ne_lt {ms : List Member} {m : Member} (h : m ∈ ms) :
    (ms.filter (· != m)).length + 1 ≤ ms.length := by
  induction ms with
  | nil => simp at h
  | cons a l ih =>
    by_cases ha : a = m
    · subst ha
      have := List.length_filter_le (· != a) l
      simp [List.filter_cons]
      omega
    · have hm : m ∈ l := by
        cases h with
        | head => exact absurd rfl ha
        | tail _ h => exact h
      have := ih hm
      simp [List.filter_cons, ha]
      omega

/-- counting through an injection: a duplicate-free list of keys, each carried by some member,
    is no longer than the member list -/
theorem length_le_of_inj (f : Member → Option Nat) :
    ∀ (L : List Nat) (M : List Member), L.Nodup → (∀ k ∈ L, ∃ m ∈ M, f m = some k) →
      L.length ≤ M.length
  | [], _, _, _ => by simp
  | k :: L, M, hnd, hex => by
    obtain ⟨m, hm, hfm⟩ := hex k (by simp)
    have hnd' := List.nodup_cons.mp hnd
    have ih := length_le_of_inj f L (M.erase m) hnd'.2 (by
      intro k' hk'
      obtain ⟨m', hm', hfm'⟩ := hex k' (by simp [hk'])
      refine ⟨m', ?_, hfm'⟩
      have hne : m' ≠ m := by
        intro heq; subst heq
        rw [hfm] at hfm'
        cases hfm'
        exact hnd'.1 hk'
      exact (List.mem_erase_of_ne hne).mpr hm')
    have hl := List.length_erase_of_mem hm
    have hpos : 0 < M.length := List.length_pos_of_mem hm
    simp only [List.length_cons]
    omega

end CoC13
end Fc
