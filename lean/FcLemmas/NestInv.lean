/-
  FcLemmas/NestInv.lean — the boundary invariant of a nest, `NInv` = flat C01 invariant of the
  outer instance ∧ flat C01 invariant of every inner instance ∧ `LinkC` for every nested child;
  it holds initially, is preserved by `Nest.poll / fire / drop`, and implies `quietAt` and
  `noWakePanic`.
-/
import FcLemmas.NestLink
set_option linter.unusedSimpArgs false
set_option linter.unusedVariables false

namespace Fc
open Mon

namespace Nest

structure NInv (nc : NCase) (s : St) : Prop where
  fo : Flat nc.outer.policy s.out
  fi : ∀ c, (nc.inner c).isSome = true → Flat (innerPolicy nc c) (s.inn c)
  lk : ∀ c, c < nc.n → (nc.inner c).isSome = true →
         LinkC (s.out.w.handed c) s.out.w.trace (s.inn c).w.trace (s.polls c) c

/-! ### reading off the property -/

theorem innerPolicy_some (nc : NCase) (c : Nat) (fam : Fam) (k : Nat)
    (h : nc.inner c = some (fam, k)) : innerPolicy nc c = fam.policy := by
  simp [innerPolicy, h]

/-- the wake-up of a leaf travels through both levels -/
theorem leaf_woken {nc : NCase} {s : St} (h : NInv nc s) (c g : Nat) (hc : c < nc.n)
    (hs : (nc.inner c).isSome = true)
    (ha : alive s.out.w.trace = true) (hlo : lastOut s.out.w.trace = some .pending)
    (hp : lastRes s.out.w.trace c = some .pend) (hg : gone s.out.w.trace c = false)
    (hpl : lastRes (s.inn c).w.trace g = some .pend) (hol : owes (s.inn c).w.trace g = true) :
    wokeSince s.out.w.trace = true := by
  have lk := h.lk c hc hs
  have hai : alive (s.inn c).w.trace = true := by
    cases hh : alive (s.inn c).w.trace with
    | true => rfl
    | false => have := lk.l4 ha hh; rw [hg] at this; exact Bool.noConfusion this
  have hwi := (h.fi c hs).quiet_pt g hai (lk.l2 hp) hpl hol
  exact h.fo.quiet_pt c ha hlo hp (lk.l3 hwi)

theorem quietAt_of_ninv {nc : NCase} {s : St} (h : NInv nc s) : quietAt nc s = true := by
  unfold quietAt
  simp only
  cases ha : alive s.out.w.trace with
  | false => simp
  | true =>
    by_cases hlo : lastOut s.out.w.trace = some .pending
    · simp only [hlo, beq_self_eq_true, Bool.and_self, Bool.not_true, Bool.false_or,
        List.all_eq_true, List.mem_range, Bool.and_eq_true]
      intro c hc
      constructor
      · cases hA : (lastRes s.out.w.trace c == some Res.pend && !gone s.out.w.trace c &&
            owes s.out.w.trace c) with
        | false => simp
        | true =>
          simp only [Bool.and_eq_true, beq_iff_eq, Bool.not_eq_true'] at hA
          simp [h.fo.quiet_pt c ha hlo hA.1.1 hA.2]
      · cases hin : nc.inner c with
        | none => rfl
        | some fk =>
          obtain ⟨fam, k⟩ := fk
          simp only
          have hs : (nc.inner c).isSome = true := by simp [hin]
          cases hA : (lastRes s.out.w.trace c == some Res.pend && !gone s.out.w.trace c) with
          | false => simp
          | true =>
            simp only [Bool.and_eq_true, beq_iff_eq, Bool.not_eq_true'] at hA
            simp only [Bool.not_true, Bool.false_or, List.all_eq_true, List.mem_range]
            intro g _
            cases hB : (lastRes (s.inn c).w.trace g == some Res.pend && !gone (s.inn c).w.trace g &&
                owes (s.inn c).w.trace g) with
            | false => simp
            | true =>
              simp only [Bool.and_eq_true, beq_iff_eq, Bool.not_eq_true'] at hB
              simp [leaf_woken h c g hc hs ha hlo hA.1 hA.2 hB.1.1 hB.2]
    · have : (lastOut s.out.w.trace == some Outcome.pending) = false := by simpa using hlo
      simp [this]

theorem noWakePanic_of_ninv {nc : NCase} {s : St} (h : NInv nc s) : noWakePanic nc s = true := by
  unfold noWakePanic
  simp only [Bool.and_eq_true, List.all_eq_true, List.mem_range, Bool.or_eq_true,
    Bool.not_eq_true']
  refine ⟨h.fo.nowp, fun c _ => ?_⟩
  cases hs : (nc.inner c).isSome with
  | false => exact Or.inl rfl
  | true => exact Or.inr (h.fi c hs).nowp

/-! ### the initial state -/

theorem innerInit_trace (nc : NCase) (c : Nat) : (innerInit nc c).w.trace = [] := by
  unfold innerInit
  split <;> rfl

theorem ninv_init (nc : NCase) (ho : nc.outer.isConc = true ∨ nc.outer.isSeq = true)
    (hi : ∀ c fam k, nc.inner c = some (fam, k) → fam.isConc = true ∨ fam.isSeq = true) :
    NInv nc (init nc) := by
  refine ⟨Flat.init nc.outer ho nc.mode nc.n _, ?_, ?_⟩
  · intro c hs
    cases hin : nc.inner c with
    | none => simp [hin] at hs
    | some fk =>
      obtain ⟨fam, k⟩ := fk
      rw [innerPolicy_some nc c fam k hin]
      have : (init nc).inn c = FEng.init fam nc.mode k (fun g =>
          (nc.scripts (leafId c g)).map
            (fun st => { st with fires := st.fires.map (fun p => (p.1 % 100, p.2)) })) := by
        simp [init, innerInit, hin]
      rw [this]
      exact Flat.init fam (hi c fam k hin) nc.mode k _
  · intro c _ _
    have ht : ((init nc).inn c).w.trace = [] := innerInit_trace nc c
    rw [ht]
    refine ⟨by simp [init, cur], rfl, rfl, ?_, ?_, ?_⟩
    · intro hl; simp [init, FEng.init, World.init, lastRes] at hl
    · intro hw; simp [wokeSince] at hw
    · intro _ hd; simp [alive] at hd

/-! ### wake-ups between polls -/

theorem wfires_flat {P : Policy Fix} {e : Eng Fix} (h : Flat P e) (fs : List (Nat × Nat)) :
    Flat P { e with w := e.w.fires fs } := by
  induction fs generalizing e with
  | nil => exact h
  | cons p fs ih => exact ih (h.fire p.1 p.2)

theorem foldl_fire (o : Eng Fix) (c p : Nat) (l : List Nat) :
    l.foldl (fun o k => o.fire c (p - k)) o
      = { o with w := o.w.fires (l.map (fun k => (c, p - k))) } := by
  induction l generalizing o with
  | nil => rfl
  | cons k l ih => rw [List.foldl_cons, ih]; rfl

theorem ninv_fire {nc : NCase} {s : St} (h : NInv nc s) (id age : Nat) :
    NInv nc (fire nc s id age) := by
  unfold fire
  split
  · -- a waker handed out by the outer instance
    refine ⟨h.fo.fire id age, h.fi, fun c hc hs => ?_⟩
    exact link_fires (h.lk c hc hs) [(id, age)]
  · -- a leaf of the inner instance of `c0`
    simp only
    obtain ⟨l, hl, hp⟩ := World.fire_seg (s.inn (id / 100 - 1)).w (id % 100) age
    have hseg : (((s.inn (id / 100 - 1)).fire (id % 100) age).w.trace.take
        (((s.inn (id / 100 - 1)).fire (id % 100) age).w.trace.length
          - (s.inn (id / 100 - 1)).w.trace.length)) = l := by
      simp only [Eng.fire_w, hl]
      exact take_seg l _
    rw [hseg, foldl_fire]
    refine ⟨wfires_flat h.fo _, ?_, ?_⟩
    · intro c hs
      simp only
      split
      · rename_i hcc; subst hcc; exact (h.fi _ hs).fire _ _
      · exact h.fi c hs
    · intro c hc hs
      simp only
      split
      · rename_i hcc
        subst hcc
        simp only [Eng.fire_w, hl]
        exact link_fire_inner (h.lk _ hc hs) l hp
      · exact link_fires (h.lk c hc hs) _

/-! ### the drop -/

theorem ninv_drop {nc : NCase} {s : St} (h : NInv nc s) : NInv nc (drop nc s) := by
  unfold drop
  obtain ⟨lo, hlo, plo, hdead⟩ := drop_seg h.fo.law s.out
  refine ⟨h.fo.drop, ?_, ?_⟩
  · intro c hs
    simp only
    split
    · exact (h.fi c hs).drop
    · exact h.fi c hs
  · intro c hc hs
    simp only [drop_handed]
    rw [hlo]
    have h1 := link_outer_dropSeg (h.lk c hc hs) lo plo (by rw [← hlo]; exact hdead)
    split
    · obtain ⟨li, hli, pli, _⟩ := drop_seg (h.fi c hs).law (s.inn c)
      rw [hli]
      refine link_inner_dropSeg h1 ?_ li pli
      intro ha; rw [← hlo, hdead] at ha; exact Bool.noConfusion ha
    · exact h1

/-! ### one top-level poll -/

/-- the inner instance's speculative poll -/
def specE (nc : NCase) (s : St) (c : Nat) : Eng Fix :=
  Eng.poll (innerPolicy nc c) (s.inn c) (s.polls c + 1)

/-- the step it becomes for the outer instance -/
def stepE (nc : NCase) (s : St) (c : Nat) : Step :=
  ⟨resOfOutcome c (itemsSoFar (specE nc s c).w.trace) (lastOutcome (specE nc s c).w.trace),
   (wokes (sincePB (specE nc s c).w.trace)).map (fun k => (c, s.polls c + 1 - k))⟩

/-- the outer instance with the one-step scripts of the nested children -/
def out0 (nc : NCase) (s : St) : Eng Fix :=
  { s.out with w := { s.out.w with scripts := fun c =>
      if (nc.inner c).isSome then [stepE nc s c] else s.out.w.scripts c } }

def out1 (nc : NCase) (s : St) (w : Nat) : Eng Fix := Eng.poll nc.outer.policy (out0 nc s) w

theorem poll_out_trace (nc : NCase) (s : St) (w : Nat) :
    (poll nc s w).out.w.trace = (out1 nc s w).w.trace := rfl
theorem poll_out_handed (nc : NCase) (s : St) (w : Nat) :
    (poll nc s w).out.w.handed = (out1 nc s w).w.handed := rfl
def setScripts (e : Eng Fix) (f : Nat → List Step) : Eng Fix :=
  { e with w := { e.w with scripts := f } }
theorem poll_out (nc : NCase) (s : St) (w : Nat) :
    (poll nc s w).out = setScripts (out1 nc s w) (fun c =>
      if (nc.inner c).isSome then [] else (out1 nc s w).w.scripts c) := rfl

theorem nested_contains (nc : NCase) (c : Nat) (hc : c < nc.n) (hs : (nc.inner c).isSome = true) :
    ((List.range nc.n).filter (fun c => (nc.inner c).isSome)).contains c = true := by
  simp [hc, hs]

theorem poll_inn (nc : NCase) (s : St) (w c : Nat) :
    (poll nc s w).inn c =
      if (((List.range nc.n).filter (fun c => (nc.inner c).isSome)).contains c && !s.gone c
            && droppedNow (out1 nc s w).w.trace c) = true
      then Eng.drop (innerPolicy nc c)
        (if (((List.range nc.n).filter (fun c => (nc.inner c).isSome)).contains c
            && polledNow (out1 nc s w).w.trace c) = true then specE nc s c else s.inn c)
      else (if (((List.range nc.n).filter (fun c => (nc.inner c).isSome)).contains c
            && polledNow (out1 nc s w).w.trace c) = true then specE nc s c else s.inn c) := rfl

theorem poll_polls (nc : NCase) (s : St) (w c : Nat) :
    (poll nc s w).polls c =
      if (((List.range nc.n).filter (fun c => (nc.inner c).isSome)).contains c
            && polledNow (out1 nc s w).w.trace c) = true then s.polls c + 1 else s.polls c := rfl

theorem ninv_poll {nc : NCase} {s : St} (h : NInv nc s)
    (hnd : ∀ st, (nc.outer.policy.order st).Nodup) (w : Nat) : NInv nc (poll nc s w) := by
  have hf0 : Flat nc.outer.policy (out0 nc s) := h.fo.scripts _
  have hf1 : Flat nc.outer.policy (out1 nc s w) := hf0.poll w
  refine ⟨?_, ?_, ?_⟩
  · rw [poll_out]; exact hf1.scripts _
  · intro c hs
    rw [poll_inn]
    have hsp : Flat (innerPolicy nc c) (specE nc s c) := (h.fi c hs).poll _
    have hin1 : Flat (innerPolicy nc c)
        (if (((List.range nc.n).filter (fun c => (nc.inner c).isSome)).contains c
            && polledNow (out1 nc s w).w.trace c) = true then specE nc s c else s.inn c) := by
      split
      · exact hsp
      · exact h.fi c hs
    split
    · exact hin1.drop
    · exact hin1
  · intro c hc hs
    have lk := h.lk c hc hs
    rw [poll_inn, poll_polls, poll_out_trace, poll_out_handed]
    simp only [nested_contains nc c hc hs, Bool.true_and, polledNow_eq]
    -- the outer poll, seen from `c`
    have hsc : (out0 nc s).w.scripts c = [stepE nc s c] := by simp [out0, hs]
    have hnp := poll_np hf0.law hnd (out0 nc s) w c (stepE nc s c) hsc lk.hw
    obtain ⟨lo, hlo, plo⟩ := Eng.poll_seg hf0.law (out0 nc s) w
    -- the speculative inner poll
    obtain ⟨li, hli, pli⟩ := Eng.poll_seg (h.fi c hs).law (s.inn c) (s.polls c + 1)
    have hhead := Eng.poll_head (innerPolicy nc c) (s.inn c) (s.polls c + 1)
    have hlink := link_poll (w0 := (out0 nc s).w) (w1 := (out1 nc s w).w)
      (tsp := (specE nc s c).w.trace) (x := itemsSoFar (specE nc s c).w.trace)
      (st := stepE nc s c) lk li hli pli hhead rfl rfl lo hlo plo hnp
    -- commit / discard, then the release
    have hcommit : LinkC ((out1 nc s w).w.handed c) (out1 nc s w).w.trace
        (if polledSince (out1 nc s w).w.trace c = true then specE nc s c else s.inn c).w.trace
        (if polledSince (out1 nc s w).w.trace c = true then s.polls c + 1 else s.polls c) c := by
      cases hps : polledSince (out1 nc s w).w.trace c with
      | true => simpa [hps] using hlink
      | false => simpa [hps] using hlink
    split
    · rename_i hrel
      simp only [Bool.and_eq_true] at hrel
      have hg : gone (out1 nc s w).w.trace c = true := droppedNow_gone _ _ hrel.2
      have hfl : Flat (innerPolicy nc c)
          (if polledSince (out1 nc s w).w.trace c = true then specE nc s c else s.inn c) := by
        split
        · exact (h.fi c hs).poll _
        · exact h.fi c hs
      obtain ⟨ld, hld, pld, _⟩ := drop_seg hfl.law
        (if polledSince (out1 nc s w).w.trace c = true then specE nc s c else s.inn c)
      rw [hld]
      exact link_inner_dropSeg hcommit (fun _ => hg) ld pld
    · exact hcommit

/-! ### every reachable state -/

theorem ninv_step {nc : NCase} {s : St} (h : NInv nc s)
    (hnd : ∀ st, (nc.outer.policy.order st).Nodup) (op : Op) : NInv nc (step nc s op) := by
  cases op <;> simp only [step]
  · exact ninv_poll h hnd _
  · exact ninv_fire h _ _
  · exact ninv_drop h
  all_goals exact h

theorem ninv_foldl {nc : NCase} (hnd : ∀ st, (nc.outer.policy.order st).Nodup) (ops : List Op)
    (s : St) (h : NInv nc s) : NInv nc (ops.foldl (step nc) s) := by
  induction ops generalizing s with
  | nil => exact h
  | cons op ops ih => exact ih _ (ninv_step h hnd op)

end Nest
end Fc
