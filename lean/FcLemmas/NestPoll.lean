/-
  FcLemmas/NestPoll.lean — what one poll of the OUTER instance does to a child `c` whose script is
  the single step `[st]` (a nested child, whose step was computed from the inner instance's
  speculative poll): either `c` is not polled (nothing about it changes, wake-ups of its waker can
  only be added), or it is polled exactly once: its answer is `st.res`, it was handed one more
  waker, and if the step invokes `(c, 0)` — the waker just handed — then `owes c` holds afterwards.
-/
import FcLemmas.NestFlat
import Fc.Nest
set_option linter.unusedSimpArgs false
set_option linter.unusedVariables false

namespace Fc
open Mon

/-! ### `owes` / `lastWk` across wake-up segments -/

theorem owes_fireEv_mono (c : Nat) (e : Ev) (t : List Ev) (h : isFireEv e = true)
    (ho : owes t c = true) : owes (e :: t) c = true := by
  cases e <;> simp_all [isFireEv, owes]
  rename_i wk
  cases wk <;> simp_all [owes]

theorem owes_fireSeg_mono (l t : List Ev) (c : Nat) (hl : ∀ e ∈ l, isFireEv e = true)
    (ho : owes t c = true) : owes (l ++ t) c = true := by
  induction l with
  | nil => exact ho
  | cons e l ih =>
    exact owes_fireEv_mono c e _ (hl e (List.mem_cons_self ..))
      (ih (fun e' he' => hl e' (List.mem_cons_of_mem _ he')))

theorem lastWk_fireSeg (l t : List Ev) (c : Nat) (hl : ∀ e ∈ l, isFireEv e = true) :
    lastWk (l ++ t) c = lastWk t c :=
  skip_seg (fun t => lastWk t c) isFireEv (fun e t h => lastWk_fireEv c e t h) l hl t

theorem owes_fire_mono (w : World) (c' a c : Nat) (ho : owes w.trace c = true) :
    owes (w.fire c' a).trace c = true := by
  obtain ⟨l, hl, hp⟩ := World.fire_seg w c' a
  rw [hl]; exact owes_fireSeg_mono l _ c hp ho

theorem owes_fires_mono (w : World) (fs : List (Nat × Nat)) (c : Nat) (ho : owes w.trace c = true) :
    owes (w.fires fs).trace c = true := by
  obtain ⟨l, hl, hp⟩ := World.fires_seg w fs
  rw [hl]; exact owes_fireSeg_mono l _ c hp ho

theorem lastWk_fire (w : World) (c' a c : Nat) : lastWk (w.fire c' a).trace c = lastWk w.trace c := by
  obtain ⟨l, hl, hp⟩ := World.fire_seg w c' a
  rw [hl]; exact lastWk_fireSeg l _ c hp

theorem lastWk_fires (w : World) (fs : List (Nat × Nat)) (c : Nat) :
    lastWk (w.fires fs).trace c = lastWk w.trace c := by
  obtain ⟨l, hl, hp⟩ := World.fires_seg w fs
  rw [hl]; exact lastWk_fireSeg l _ c hp

/-- invoking the waker child `c` holds makes `c` owe -/
theorem owes_fire_hit (w : World) (c : Nat) (wk : Wk) (hh : (w.handed c).head? = some wk)
    (hl : lastWk w.trace c = some wk) : owes (w.fire c 0).trace c = true := by
  have h0 : (w.handed c)[0]? = some wk := by rw [← List.head?_eq_getElem?]; exact hh
  unfold World.fire
  rw [h0]
  simp only
  obtain ⟨l, hl2, hp⟩ := World.fireWk_seg (w.emit (.fired c 0 (some wk))) wk
  rw [hl2]
  refine owes_fireSeg_mono l _ c hp ?_
  simp [owes, hl]

theorem owes_fires_hit (w : World) (c : Nat) (wk : Wk) (fs : List (Nat × Nat))
    (hmem : (c, 0) ∈ fs) (hh : (w.handed c).head? = some wk) (hl : lastWk w.trace c = some wk) :
    owes (w.fires fs).trace c = true := by
  induction fs generalizing w with
  | nil => simp at hmem
  | cons p fs ih =>
    rw [World.fires_cons]
    by_cases hp : p = (c, 0)
    · subst hp
      exact owes_fires_mono _ fs c (owes_fire_hit w c wk hh hl)
    · have hm : (c, 0) ∈ fs := by
        simp only [List.mem_cons] at hmem
        rcases hmem with hmem | hmem
        · exact absurd hmem.symm hp
        · exact hmem
      exact ih (w.fire p.1 p.2) hm (by simpa using hh) (by rw [lastWk_fire]; exact hl)

/-! ### observations across the engine's own events -/

theorem polledSince_neutral (l t : List Ev) (c : Nat) (hl : ∀ e ∈ l, neutralEv e = true) :
    polledSince (l ++ t) c = polledSince t c :=
  skip_seg (fun t => polledSince t c) neutralEv
    (fun e t h => by cases e <;> simp_all [neutralEv, polledSince]) l hl t

theorem lastRes_neutral (l t : List Ev) (c : Nat) (hl : ∀ e ∈ l, neutralEv e = true) :
    lastRes (l ++ t) c = lastRes t c :=
  skip_seg (fun t => lastRes t c) neutralEv
    (fun e t h => by cases e <;> simp_all [neutralEv, lastRes]) l hl t

theorem owes_neutral (l t : List Ev) (c : Nat) (hl : ∀ e ∈ l, neutralEv e = true) :
    owes (l ++ t) c = owes t c :=
  skip_seg (fun t => owes t c) neutralEv
    (fun e t h => by cases e <;> simp_all [neutralEv, owes]) l hl t

theorem lastWk_neutral (l t : List Ev) (c : Nat) (hl : ∀ e ∈ l, neutralEv e = true) :
    lastWk (l ++ t) c = lastWk t c :=
  skip_seg (fun t => lastWk t c) neutralEv
    (fun e t h => by cases e <;> simp_all [neutralEv, lastWk]) l hl t

namespace Nest

/-- child `c` (script `[st]`) has not been polled by the poll in progress; `w0` = before the poll -/
structure NP1 (c : Nat) (st : Step) (w0 w : World) : Prop where
  ps : polledSince w.trace c = false
  sc : w.scripts c = [st]
  hd : w.handed c = w0.handed c
  lr : lastRes w.trace c = lastRes w0.trace c
  ow : owes w0.trace c = true → owes w.trace c = true
  hw : (w.handed c).head? = lastWk w.trace c

/-- child `c` has been polled (once) by the poll in progress -/
structure NP2 (c : Nat) (st : Step) (w0 w : World) : Prop where
  ps : polledSince w.trace c = true
  hd : (w.handed c).length = (w0.handed c).length + 1
  lr : lastRes w.trace c = some st.res
  ow : (c, 0) ∈ st.fires → owes w.trace c = true
  hw : (w.handed c).head? = lastWk w.trace c

theorem np1_neutral {c : Nat} {st : Step} {w0 w w' : World} (hn : Neutral w w')
    (h : NP1 c st w0 w) : NP1 c st w0 w' := by
  obtain ⟨l, hl, hp⟩ := hn.tr
  refine ⟨?_, by rw [hn.sc]; exact h.sc, by rw [hn.hd]; exact h.hd, ?_, ?_, ?_⟩
  · rw [hl, polledSince_neutral l _ c hp]; exact h.ps
  · rw [hl, lastRes_neutral l _ c hp]; exact h.lr
  · intro ho; rw [hl, owes_neutral l _ c hp]; exact h.ow ho
  · rw [hn.hd, hl, lastWk_neutral l _ c hp]; exact h.hw

theorem np2_neutral {c : Nat} {st : Step} {w0 w w' : World} (hn : Neutral w w')
    (h : NP2 c st w0 w) : NP2 c st w0 w' := by
  obtain ⟨l, hl, hp⟩ := hn.tr
  refine ⟨?_, by rw [hn.hd]; exact h.hd, ?_, ?_, ?_⟩
  · rw [hl, polledSince_neutral l _ c hp]; exact h.ps
  · rw [hl, lastRes_neutral l _ c hp]; exact h.lr
  · intro ho; rw [hl, owes_neutral l _ c hp]; exact h.ow ho
  · rw [hn.hd, hl, lastWk_neutral l _ c hp]; exact h.hw

/-! #### polling another child -/

theorem pollChild_scripts_other (w : World) (i s c : Nat) (h : c ≠ i) :
    (w.pollChild i s).scripts c = w.scripts c := by
  simp [World.pollChild, upd_other _ _ _ _ h]

theorem pollChild_handed_other (w : World) (i s c : Nat) (h : c ≠ i) :
    (w.pollChild i s).handed c = w.handed c := by
  simp [World.pollChild, upd_other _ _ _ _ h]

theorem pollChild_handed_same (w : World) (c s : Nat) :
    (w.pollChild c s).handed c = w.wakerFor s :: w.handed c := by
  simp [World.pollChild]

theorem lastWk_pollChild_other (w : World) (i s c : Nat) (h : c ≠ i) :
    lastWk (w.pollChild i s).trace c = lastWk w.trace c := by
  have hne : ¬ i = c := fun hh => h hh.symm
  obtain ⟨l, hl, hp⟩ := World.pollChild_seg w i s
  rw [hl]
  simp only [lastWk]
  rw [lastWk_fireSeg l _ c hp]
  simp [lastWk, hne]

theorem lastWk_pollChild_same (w : World) (c s : Nat) :
    lastWk (w.pollChild c s).trace c = some (w.wakerFor s) := by
  obtain ⟨l, hl, hp⟩ := World.pollChild_seg w c s
  rw [hl]
  simp only [lastWk]
  rw [lastWk_fireSeg l _ c hp]
  simp [lastWk]

theorem owes_pollChild_mono (w : World) (i s c : Nat) (h : c ≠ i) (ho : owes w.trace c = true) :
    owes (w.pollChild i s).trace c = true := by
  have hne : ¬ i = c := fun hh => h hh.symm
  unfold World.pollChild
  simp only [World.emit_trace, owes]
  refine owes_fires_mono _ _ c ?_
  simp [owes, hne, ho]

theorem np1_pollChild_other {c : Nat} {st : Step} {w0 w : World} (i : Nat) (h : c ≠ i)
    (hp : NP1 c st w0 w) : NP1 c st w0 (w.pollChild i i) := by
  have hne : ¬ i = c := fun hh => h hh.symm
  refine ⟨?_, ?_, ?_, ?_, ?_, ?_⟩
  · rw [polledSince_pollChild]; simp [hne, hp.ps]
  · rw [pollChild_scripts_other _ _ _ _ h]; exact hp.sc
  · rw [pollChild_handed_other _ _ _ _ h]; exact hp.hd
  · rw [C16.lastRes_pollChild]; simp [hne, hp.lr]
  · intro ho; exact owes_pollChild_mono _ _ _ _ h (hp.ow ho)
  · rw [pollChild_handed_other _ _ _ _ h, lastWk_pollChild_other _ _ _ _ h]; exact hp.hw

theorem np2_pollChild_other {c : Nat} {st : Step} {w0 w : World} (i : Nat) (h : c ≠ i)
    (hp : NP2 c st w0 w) : NP2 c st w0 (w.pollChild i i) := by
  have hne : ¬ i = c := fun hh => h hh.symm
  refine ⟨?_, ?_, ?_, ?_, ?_⟩
  · rw [polledSince_pollChild]; simp [hp.ps]
  · rw [pollChild_handed_other _ _ _ _ h]; exact hp.hd
  · rw [C16.lastRes_pollChild]; simp [hne, hp.lr]
  · intro ho; exact owes_pollChild_mono _ _ _ _ h (hp.ow ho)
  · rw [pollChild_handed_other _ _ _ _ h, lastWk_pollChild_other _ _ _ _ h]; exact hp.hw

/-! #### polling `c` itself -/

theorem np2_pollChild_same {c : Nat} {st : Step} {w0 w : World} (hp : NP1 c st w0 w) :
    NP2 c st w0 (w.pollChild c c) := by
  have hstep : w.stepOf c = st := by simp [World.stepOf, hp.sc]
  refine ⟨?_, ?_, ?_, ?_, ?_⟩
  · rw [polledSince_pollChild]; simp
  · rw [pollChild_handed_same, List.length_cons, hp.hd]
  · rw [C16.lastRes_pollChild]; simp [World.resOf, hstep]
  · intro hmem
    unfold World.pollChild
    simp only [World.emit_trace, owes, hstep]
    refine owes_fires_hit _ c (w.wakerFor c) _ hmem ?_ ?_
    · simp
    · simp [lastWk]
  · rw [pollChild_handed_same, lastWk_pollChild_same]; rfl

/-- the fact carried through the outer poll; `l` = slots still to be scanned -/
def NPQ (c : Nat) (st : Step) (w0 : World) (w : World) (l : List Nat) : Prop :=
  (NP1 c st w0 w ∨ NP2 c st w0 w) ∧ (polledSince w.trace c = true → c ∉ l) ∧ l.Nodup

/-- one poll of the outer instance, seen from child `c` with script `[st]` -/
theorem poll_np {P : Policy Fix} (L : Lawful P) (hnd : ∀ s, (P.order s).Nodup) (e : Eng Fix)
    (wid c : Nat) (st : Step) (hsc : e.w.scripts c = [st])
    (hhw : (e.w.handed c).head? = lastWk e.w.trace c) :
    NP1 c st e.w (Eng.poll P e wid).w ∨ NP2 c st e.w (Eng.poll P e wid).w := by
  have := Eng.poll_ind L (NPQ c st e.w) ?_ ?_ ?_ e wid ?_
  · obtain ⟨_, h, _⟩ := this; exact h
  · intro w w' l hn ⟨h, hps, hnd'⟩
    obtain ⟨l2, e2, p2⟩ := hn.tr
    refine ⟨?_, ?_, hnd'⟩
    · rcases h with h | h
      · exact Or.inl (np1_neutral hn h)
      · exact Or.inr (np2_neutral hn h)
    · rw [e2, polledSince_neutral l2 _ c p2]; exact hps
  · intro w i rest ⟨h, hps, hnd'⟩
    exact ⟨h, fun hp hm => hps hp (List.mem_cons_of_mem _ hm), (List.nodup_cons.mp hnd').2⟩
  · intro w i rest ⟨h, hps, hnd'⟩
    have hnd2 := List.nodup_cons.mp hnd'
    by_cases hci : c = i
    · subst hci
      have hps0 : polledSince w.trace c = false := by
        cases hh : polledSince w.trace c with
        | false => rfl
        | true => exact absurd (List.mem_cons_self ..) (hps hh)
      rcases h with h | h
      · exact ⟨Or.inr (np2_pollChild_same h), fun _ => hnd2.1, hnd2.2⟩
      · rw [h.ps] at hps0; exact Bool.noConfusion hps0
    · have hne : ¬ i = c := fun hh => hci hh.symm
      refine ⟨?_, ?_, hnd2.2⟩
      · rcases h with h | h
        · exact Or.inl (np1_pollChild_other i hci h)
        · exact Or.inr (np2_pollChild_other i hci h)
      · intro hp hm
        rw [polledSince_pollChild] at hp
        simp only [hne, decide_false, Bool.false_or] at hp
        exact hps hp (List.mem_cons_of_mem _ hm)
  · refine ⟨Or.inl ⟨by simp [polledSince], hsc, rfl, by simp [lastRes], fun ho => by simpa [owes] using ho,
      by simpa [lastWk] using hhw⟩, fun hp => by simp [polledSince] at hp, hnd _⟩

end Nest
end Fc
