/-
  FcLemmas/Live2Inst.lean — `Live2.FutLike` for race, try_join (both models) and race_ok (three
  variants), from the functional invariants C06 / C05 / C07, and the initial states.
-/
import FcLemmas.Live2
import FcLemmas.C05
import FcLemmas.C06
import FcLemmas.C07
set_option linter.unusedSimpArgs false
set_option linter.unusedVariables false

namespace Fc
namespace Live2
open Mon Live Fix

/-! ### what the value lists say about single children -/

theorem readies_of_lastRes : ∀ (t : List Ev) (c : Nat) (ok : Bool) (v : Nat),
    lastRes t c = some (.ready ok v) → readies t ≠ [] := by
  intro t
  induction t with
  | nil => intro c ok v h; simp [lastRes] at h
  | cons e t ih =>
    intro c ok v h
    cases e with
    | childEnd c' r =>
      by_cases hc : c' = c
      · simp only [lastRes, hc, if_true, Option.some.injEq] at h
        subst h; simp [readies]
      · simp only [lastRes, hc, if_false] at h
        have := ih c ok v h
        cases r <;> simp [readies, this]
    | _ => simpa [readies] using ih c ok v (by simpa [lastRes] using h)

theorem errs_of_lastRes : ∀ (t : List Ev) (c : Nat) (v : Nat),
    lastRes t c = some (.ready false v) → errs t ≠ [] := by
  intro t
  induction t with
  | nil => intro c v h; simp [lastRes] at h
  | cons e t ih =>
    intro c v h
    cases e with
    | childEnd c' r =>
      by_cases hc : c' = c
      · simp only [lastRes, hc, if_true, Option.some.injEq] at h
        subst h; simp [errs]
      · simp only [lastRes, hc, if_false] at h
        have := ih c v h
        rcases r with _ | ⟨ok, v'⟩ | v' | _ | _ <;> try cases ok
        all_goals simp [errs, this]
    | _ => simpa [errs] using ih c v (by simpa [lastRes] using h)

theorem oks_of_lastRes : ∀ (t : List Ev) (c : Nat) (v : Nat),
    lastRes t c = some (.ready true v) → oks t ≠ [] := by
  intro t
  induction t with
  | nil => intro c v h; simp [lastRes] at h
  | cons e t ih =>
    intro c v h
    cases e with
    | childEnd c' r =>
      by_cases hc : c' = c
      · simp only [lastRes, hc, if_true, Option.some.injEq] at h
        subst h; simp [oks]
      · simp only [lastRes, hc, if_false] at h
        have := ih c v h
        rcases r with _ | ⟨ok, v'⟩ | v' | _ | _ <;> try cases ok
        all_goals simp [oks, this]
    | _ => simpa [oks] using ih c v (by simpa [lastRes] using h)

theorem resolvedVal_none_of {t : List Ev} {c : Nat}
    (h : ∀ ok v, lastRes t c ≠ some (.ready ok v)) : resolvedVal t c = none := by
  unfold resolvedVal
  cases hl : lastRes t c with
  | none => rfl
  | some r =>
    cases r with
    | ready ok v => exact absurd hl (h ok v)
    | _ => rfl

/-! ### race -/

/-- C06 says nothing about the slot numbers; add the arity -/
def I6 (n : Nat) (s : Fix) (t : List Ev) : Prop := C06.Inv s t ∧ s.n = n
def J6 (n : Nat) (s : Fix) (t : List Ev) (l : List Nat) : Prop :=
  C06.J s t l ∧ s.n = n ∧ ∀ j ∈ l, j < n

theorem rot_lt (s : Fix) (j : Nat) (h : j ∈ s.rot) : j < s.n := by
  unfold Fix.rot at h
  simp only [List.mem_map, List.mem_range] at h
  obtain ⟨k, hk, rfl⟩ := h
  exact Nat.mod_lt _ (by omega)

theorem race_handle_n (s : Fix) (i : Nat) (r : Res) : (race.handle s i r).s.n = s.n := by
  cases r <;> simp [race, Fix.keep, Fix.kill]

theorem sim_race6 (n : Nat) (m : Mode) : Sim race m Sim.anyRes (I6 n) (J6 n) where
  fireEv := fun s t e he h => ⟨(C06.sim_race m).fireEv s t e he h.1, h.2⟩
  pre := fun s t w o hp h => ⟨(C06.sim_race m).pre s t w o hp h.1, h.2⟩
  start := by
    intro s t w hp h
    refine ⟨(C06.sim_race m).start s t w hp h.1, by simpa [race, Fix.bump] using h.2, ?_⟩
    intro j hj
    simp only [race] at hj
    rw [← h.2]; exact rot_lt s j hj
  earlyPend := fun s t l hm hor hJ => ⟨(C06.sim_race m).earlyPend s t l hm hor hJ.1, hJ.2.1⟩
  skip := fun s t i rest hd hJ => ⟨(C06.sim_race m).skip s t i rest hd hJ.1, hJ.2.1,
    fun j hj => hJ.2.2 j (List.mem_cons_of_mem _ hj)⟩
  goOn := by
    intro s t i rest wk l r hJ hel hr hk hl hex
    exact ⟨(C06.sim_race m).goOn s t i rest wk l r hJ.1 hel hr hk hl hex,
      by rw [race_handle_n]; exact hJ.2.1, fun j hj => hJ.2.2 j (List.mem_cons_of_mem _ hj)⟩
  goExit := by
    intro s t i rest wk l r o hJ hel hr hk hl hex
    exact ⟨(C06.sim_race m).goExit s t i rest wk l r o hJ.1 hel hr hk hl hex,
      by rw [race_handle_n]; exact hJ.2.1⟩
  panic := by
    intro s t i rest wk l hJ hel hl
    exact ⟨(C06.sim_race m).panic s t i rest wk l hJ.1 hel hl, by simpa [race, Fix.kill] using hJ.2.1⟩
  finish := by
    intro s t hJ
    exact ⟨(C06.sim_race m).finish s t hJ.1, by simpa [race] using hJ.2.1⟩
  drop := by
    intro s t h
    exact ⟨(C06.sim_race m).drop s t h.1, by simpa [race, Fix.kill] using h.2⟩

/-- the race resolves to one value, the answer is `Ready` -/
def FinRace (ok : Bool) (vals : List Nat) : Prop := ok = true ∧ ∃ v, vals = [v]

theorem futLike_race (n : Nat) (hn : 0 < n) : FutLike race n (I6 n) (J6 n) FinRace where
  conc := conc_race
  hdrop := by intro s i r c h; cases r <;> simp_all [race, Fix.keep]
  hfin := by intro s; rfl
  sim := fun m => sim_race6 n m
  hn := fun s t h => h.2
  jlt := fun s t i rest hJ => hJ.2.2 i (List.mem_cons_self ..)
  jun := by
    intro s t i rest hJ _ ok v hl
    exact readies_of_lastRes t i ok v hl (hJ.1.1.live hJ.1.2).1
  pend := by
    intro s t h
    have hm := h.1.mon
    simp only [holds_C06, c06At, Bool.and_eq_true, beq_iff_eq] at hm
    exact ⟨0, hn, resolvedVal_none_of (fun ok v hl => readies_of_lastRes t 0 ok v hl hm.2)⟩
  nsome := by
    intro s t k vals h
    have hm := h.1.mon
    simp [holds_C06, c06At] at hm
  nnone := by
    intro s t h
    have hm := h.1.mon
    simp [holds_C06, c06At] at hm
  misuse := by
    intro s t h
    have hm := h.1.mon
    simp only [holds_C06, c06At, Bool.and_eq_true] at hm
    exact hm.2
  fin := by
    intro s t ok vals h
    have hm := h.1.mon
    simp only [holds_C06, c06At, Bool.and_eq_true, beq_iff_eq] at hm
    refine ⟨hm.2.1.1.1, ?_⟩
    have hlen := hm.2.1.2
    cases vals with
    | nil => simp at hlen
    | cons v rest =>
      cases rest with
      | nil => exact ⟨v, rfl⟩
      | cons _ _ => simp at hlen

/-! ### try_join -/

def FinAny (_ : Bool) (_ : List Nat) : Prop := True

theorem c05_jun {slice : Bool} {n : Nat} {s : Fix} {t : List Ev} {i : Nat} {rest : List Nat}
    (hJ : C05.J slice n s t (i :: rest)) (hel : s.st i ≠ .ready) :
    ∀ ok v, lastRes t i ≠ some (.ready ok v) := by
  intro ok v hl
  obtain ⟨h, hd, _, hlt⟩ := hJ
  have hi : i < n := hlt i (List.mem_cons_self ..)
  cases ok with
  | false => exact errs_of_lastRes t i v hl (h.noerr hd)
  | true =>
    rcases h.live hd i hi with ⟨_, ho⟩ | ⟨hr, _⟩
    · simp [okVal, hl] at ho
    · exact hel hr

theorem c05_pend {slice : Bool} {n : Nat} {s : Fix} {t : List Ev}
    (h : C05.Inv slice n s (.pollEnd .pending :: t)) : ∃ c, c < n ∧ resolvedVal t c = none := by
  have hm := h.mon
  simp only [holds_C05, c05At, Bool.and_eq_true, beq_iff_eq, Bool.not_eq_true'] at hm
  obtain ⟨_, herr, hall⟩ := hm
  simp only [allOk, List.all_eq_false, List.mem_range] at hall
  obtain ⟨c, hc, hn⟩ := hall
  refine ⟨c, hc, resolvedVal_none_of ?_⟩
  intro ok v hl
  cases ok with
  | false => exact errs_of_lastRes t c v hl herr
  | true => simp [okVal, hl] at hn

theorem futLike_tryJoinSlice (n : Nat) :
    FutLike tryJoinSlice n (C05.Inv true n) (C05.J true n) FinAny where
  conc := conc_tryJoinSlice
  hdrop := by
    intro s i r c h
    rcases r with _ | ⟨ok, v⟩ | v | _ | _ <;> try cases ok
    all_goals simp_all [tryJoinSlice, Fix.keep]
  hfin := by intro s; simp only [tryJoinSlice]; split <;> rfl
  sim := fun m => C05.sim_tryJoinSlice n m
  hn := fun s t h => h.hn
  jlt := fun s t i rest hJ => hJ.2.2.2 i (List.mem_cons_self ..)
  jun := by
    intro s t i rest hJ hel
    exact c05_jun hJ (by simp_all [tryJoinSlice])
  pend := fun s t h => c05_pend h
  nsome := by intro s t k vals h; have hm := h.mon; simp [holds_C05, c05At] at hm
  nnone := by intro s t h; have hm := h.mon; simp [holds_C05, c05At] at hm
  misuse := by
    intro s t h
    have hm := h.mon
    simp only [holds_C05, c05At, Bool.and_eq_true] at hm
    exact hm.2
  fin := fun _ _ _ _ _ => trivial

theorem futLike_tryJoinTuple (n : Nat) :
    FutLike tryJoinTuple n (C05.Inv false n) (C05.J false n) FinAny where
  conc := conc_tryJoinTuple
  hdrop := by
    intro s i r c h
    rcases r with _ | ⟨ok, v⟩ | v | _ | _ <;> try cases ok
    all_goals simp_all [tryJoinTuple, Fix.keep]
    split at h <;> simp_all
  hfin := by intro s; rfl
  sim := fun m => C05.sim_tryJoinTuple n m
  hn := fun s t h => h.hn
  jlt := fun s t i rest hJ => hJ.2.2.2 i (List.mem_cons_self ..)
  jun := by
    intro s t i rest hJ hel
    exact c05_jun hJ (by simpa [tryJoinTuple] using hel)
  pend := fun s t h => c05_pend h
  nsome := by intro s t k vals h; have hm := h.mon; simp [holds_C05, c05At] at hm
  nnone := by intro s t h; have hm := h.mon; simp [holds_C05, c05At] at hm
  misuse := by
    intro s t h
    have hm := h.mon
    simp only [holds_C05, c05At, Bool.and_eq_true] at hm
    exact hm.2
  fin := fun _ _ _ _ _ => trivial

/-! ### race_ok -/

theorem futLike_raceOk (rotate early : Bool) (hconc : Conc (raceOk rotate early)) (n : Nat) :
    FutLike (raceOk rotate early) n (C07.Inv n) (C07.J n) FinAny where
  conc := hconc
  hdrop := by
    intro s i r c h
    rcases r with _ | ⟨ok, v⟩ | v | _ | _ <;> try cases ok
    all_goals cases early <;> simp_all [raceOk, Fix.keep]
  hfin := by intro s; simp only [raceOk]; split <;> rfl
  sim := fun m => C07.sim rotate early n m
  hn := fun s t h => h.1.hn
  jlt := fun s t i rest hJ => hJ.2.2.2 i (List.mem_cons_self ..)
  jun := by
    intro s t i rest hJ hel ok v hl
    obtain ⟨h, hd, _, hlt⟩ := hJ
    have hi : i < n := hlt i (List.mem_cons_self ..)
    have hel' : s.st i ≠ .ready := by simpa [raceOk] using hel
    cases ok with
    | true => exact oks_of_lastRes t i v hl (h.noOk hd)
    | false =>
      rcases h.live hd i hi with ⟨_, ho⟩ | ⟨hr, _⟩
      · simp [errVal, hl] at ho
      · exact hel' hr
  pend := by
    intro s t h
    have hm := h.1.mon
    simp only [holds_C07, c07At, Bool.and_eq_true, beq_iff_eq, Bool.not_eq_true'] at hm
    obtain ⟨_, hok, hall⟩ := hm
    simp only [allErr, List.all_eq_false, List.mem_range] at hall
    obtain ⟨c, hc, hn⟩ := hall
    refine ⟨c, hc, resolvedVal_none_of ?_⟩
    intro ok v hl
    cases ok with
    | true => exact oks_of_lastRes t c v hl hok
    | false => simp [errVal, hl] at hn
  nsome := by intro s t k vals h; have hm := h.1.mon; simp [holds_C07, c07At] at hm
  nnone := by intro s t h; have hm := h.1.mon; simp [holds_C07, c07At] at hm
  misuse := by
    intro s t h
    have hm := h.1.mon
    simp only [holds_C07, c07At, Bool.and_eq_true] at hm
    exact hm.2
  fin := fun _ _ _ _ _ => trivial

/-! ### the initial states -/

theorem lb_init_race (m : Mode) (n : Nat) (scripts : Nat → List Step)
    (hs : ∀ c, c < n → Exec.futureScript (scripts c) = true) :
    LB race (I6 n) .direct (fun c => finalVal (scripts c)) n (FEng.init .race m n scripts) := by
  refine ⟨rfl, (fun hm => by cases hm), fun _ => C01D.binv_init .race n scripts m rfl,
    C20.b20_init .race conc_race n scripts m, ?_, winv_init _ n scripts hs, rfl, Or.inl rfl, ?_⟩
  · exact ⟨by simpa [FEng.init, Fam.initCnt, World.init] using C06.inv_init n, rfl⟩
  · intro hc; simp [FEng.init, World.init, lastOut] at hc

theorem lb_init_tryJoinSlice (m : Mode) (n : Nat) (scripts : Nat → List Step)
    (hs : ∀ c, c < n → Exec.futureScript (scripts c) = true) :
    LB tryJoinSlice (C05.Inv true n) m (fun c => finalVal (scripts c)) n
      (FEng.init .tryJoinSlice m n scripts) := by
  refine ⟨rfl, fun hm => C01.binv_init .tryJoinSlice n scripts m (by rw [← hm]; rfl),
    fun hm => C01D.binv_init .tryJoinSlice n scripts m (by rw [← hm]; rfl),
    C20.b20_init .tryJoinSlice conc_tryJoinSlice n scripts m, ?_, winv_init _ n scripts hs, rfl,
    Or.inl rfl, ?_⟩
  · simpa [FEng.init, Fam.initCnt, World.init] using C05.inv_init true n
  · intro hc; simp [FEng.init, World.init, lastOut] at hc

theorem lb_init_tryJoinTuple (m : Mode) (n : Nat) (scripts : Nat → List Step)
    (hs : ∀ c, c < n → Exec.futureScript (scripts c) = true) :
    LB tryJoinTuple (C05.Inv false n) m (fun c => finalVal (scripts c)) n
      (FEng.init .tryJoinTuple m n scripts) := by
  refine ⟨rfl, fun hm => C01.binv_init .tryJoinTuple n scripts m (by rw [← hm]; rfl),
    fun hm => C01D.binv_init .tryJoinTuple n scripts m (by rw [← hm]; rfl),
    C20.b20_init .tryJoinTuple conc_tryJoinTuple n scripts m, ?_, winv_init _ n scripts hs, rfl,
    Or.inl rfl, ?_⟩
  · simpa [FEng.init, Fam.initCnt, World.init] using C05.inv_init false n
  · intro hc; simp [FEng.init, World.init, lastOut] at hc

theorem lb_init_raceOkArr (m : Mode) (n : Nat) (scripts : Nat → List Step)
    (hs : ∀ c, c < n → Exec.futureScript (scripts c) = true) :
    LB (raceOk false false) (C07.Inv n) .direct (fun c => finalVal (scripts c)) n
      (FEng.init .raceOkArr m n scripts) := by
  refine ⟨rfl, (fun hm => by cases hm), fun _ => C01D.binv_init .raceOkArr n scripts m rfl,
    C20.b20_init .raceOkArr conc_raceOkArr n scripts m, ?_, winv_init _ n scripts hs, rfl, Or.inl rfl, ?_⟩
  · simpa [FEng.init, Fam.initCnt, World.init] using C07.inv_init n
  · intro hc; simp [FEng.init, World.init, lastOut] at hc

theorem lb_init_raceOkVec (m : Mode) (n : Nat) (scripts : Nat → List Step)
    (hs : ∀ c, c < n → Exec.futureScript (scripts c) = true) :
    LB (raceOk false true) (C07.Inv n) .direct (fun c => finalVal (scripts c)) n
      (FEng.init .raceOkVec m n scripts) := by
  refine ⟨rfl, (fun hm => by cases hm), fun _ => C01D.binv_init .raceOkVec n scripts m rfl,
    C20.b20_init .raceOkVec conc_raceOkVec n scripts m, ?_, winv_init _ n scripts hs, rfl, Or.inl rfl, ?_⟩
  · simpa [FEng.init, Fam.initCnt, World.init] using C07.inv_init n
  · intro hc; simp [FEng.init, World.init, lastOut] at hc

theorem lb_init_raceOkTup (m : Mode) (n : Nat) (scripts : Nat → List Step)
    (hs : ∀ c, c < n → Exec.futureScript (scripts c) = true) :
    LB (raceOk true false) (C07.Inv n) .direct (fun c => finalVal (scripts c)) n
      (FEng.init .raceOkTup m n scripts) := by
  refine ⟨rfl, (fun hm => by cases hm), fun _ => C01D.binv_init .raceOkTup n scripts m rfl,
    C20.b20_init .raceOkTup conc_raceOkTup n scripts m, ?_, winv_init _ n scripts hs, rfl, Or.inl rfl, ?_⟩
  · simpa [FEng.init, Fam.initCnt, World.init] using C07.inv_init n
  · intro hc; simp [FEng.init, World.init, lastOut] at hc

end Live2
end Fc
