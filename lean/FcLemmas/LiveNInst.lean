/-
  FcLemmas/LiveNInst.lean — the future families as instances of `LiveN.FNest`, the run invariant at
  `Nest.init`, and the resulting liveness statement for nests of future combinators.
-/
import FcLemmas.LiveNRun
set_option linter.unusedSimpArgs false
set_option linter.unusedVariables false

namespace Fc
namespace LiveN
open Mon Live Nest

/-! ### the table of future families -/

def futI : Fam → Nat → Fix → List Ev → Prop
  | .joinSlice, k => C04.Inv true k
  | .joinTuple, k => C04.Inv false k
  | .tryJoinSlice, k => C05.Inv true k
  | .tryJoinTuple, k => C05.Inv false k
  | .race, k => Live2.I6 k
  | .raceOkArr, k => C07.Inv k
  | .raceOkVec, k => C07.Inv k
  | .raceOkTup, k => C07.Inv k
  | _, _ => fun _ _ => False

def futJ : Fam → Nat → Fix → List Ev → List Nat → Prop
  | .joinSlice, k => C04.J true k
  | .joinTuple, k => C04.J false k
  | .tryJoinSlice, k => C05.J true k
  | .tryJoinTuple, k => C05.J false k
  | .race, k => Live2.J6 k
  | .raceOkArr, k => C07.J k
  | .raceOkVec, k => C07.J k
  | .raceOkTup, k => C07.J k
  | _, _ => fun _ _ _ => False

/-- what is known about the final answer: join resolves to `Ready` (`ok = true`), race to `Ready`
    with one value -/
def futFin : Fam → Bool → List Nat → Prop
  | .joinSlice => Live2.FinTrue
  | .joinTuple => Live2.FinTrue
  | .race => Live2.FinRace
  | _ => Live2.FinAny

theorem futLike_fam (fam : Fam) (k : Nat) (h : ExecN.futFam fam k = true) :
    Live2.FutLike fam.policy k (futI fam k) (futJ fam k) (futFin fam) := by
  cases fam <;> simp [ExecN.futFam] at h <;> simp only [Fam.policy, futI, futJ, futFin]
  · exact Live2.futLike_of_joinLike Live.joinLike_slice k
  · exact Live2.futLike_of_joinLike Live.joinLike_tuple k
  · exact Live2.futLike_tryJoinSlice k
  · exact Live2.futLike_tryJoinTuple k
  · exact Live2.futLike_race k h
  · exact Live2.futLike_raceOk false false conc_raceOkArr k
  · exact Live2.futLike_raceOk false true conc_raceOkVec k
  · exact Live2.futLike_raceOk true false conc_raceOkTup k

theorem isConc_of_futFam (fam : Fam) (k : Nat) (h : ExecN.futFam fam k = true) :
    fam.isConc = true := by
  cases fam <;> simp [ExecN.futFam] at h <;> rfl

theorem lb_init_joinSlice (m : Mode) (n : Nat) (scripts : Nat → List Step)
    (hs : ∀ c, c < n → Exec.futureScript (scripts c) = true) :
    Live2.LB joinSlice (C04.Inv true n) m (fun c => finalVal (scripts c)) n
      (FEng.init .joinSlice m n scripts) := by
  refine ⟨rfl, fun hm => C01.binv_init .joinSlice n scripts m (by rw [← hm]; rfl),
    fun hm => C01D.binv_init .joinSlice n scripts m (by rw [← hm]; rfl),
    C20.b20_init .joinSlice conc_joinSlice n scripts m, ?_, winv_init _ n scripts hs, rfl,
    Or.inl rfl, ?_⟩
  · simpa [FEng.init, Fam.initCnt, World.init] using C04.inv_init true n
  · intro hc; simp [FEng.init, World.init, lastOut] at hc

theorem lb_init_joinTuple (m : Mode) (n : Nat) (scripts : Nat → List Step)
    (hs : ∀ c, c < n → Exec.futureScript (scripts c) = true) :
    Live2.LB joinTuple (C04.Inv false n) m (fun c => finalVal (scripts c)) n
      (FEng.init .joinTuple m n scripts) := by
  refine ⟨rfl, fun hm => C01.binv_init .joinTuple n scripts m (by rw [← hm]; rfl),
    fun hm => C01D.binv_init .joinTuple n scripts m (by rw [← hm]; rfl),
    C20.b20_init .joinTuple conc_joinTuple n scripts m, ?_, winv_init _ n scripts hs, rfl,
    Or.inl rfl, ?_⟩
  · simpa [FEng.init, Fam.initCnt, World.init] using C04.inv_init false n
  · intro hc; simp [FEng.init, World.init, lastOut] at hc

theorem lb_init_fam (fam : Fam) (k : Nat) (m : Mode) (scripts : Nat → List Step)
    (h : ExecN.futFam fam k = true) (hs : ∀ c, c < k → Exec.futureScript (scripts c) = true) :
    Live2.LB fam.policy (futI fam k) (fam.modeOf m) (fun c => finalVal (scripts c)) k
      (FEng.init fam m k scripts) := by
  cases fam <;> simp [ExecN.futFam] at h <;> simp only [Fam.policy, futI]
  · exact lb_init_joinSlice m k scripts hs
  · exact lb_init_joinTuple m k scripts hs
  · exact Live2.lb_init_tryJoinSlice m k scripts hs
  · exact Live2.lb_init_tryJoinTuple m k scripts hs
  · exact Live2.lb_init_race m k scripts hs
  · exact Live2.lb_init_raceOkArr m k scripts hs
  · exact Live2.lb_init_raceOkVec m k scripts hs
  · exact Live2.lb_init_raceOkTup m k scripts hs

/-! ### the nest -/

/-- family and size of the inner instance in slot `c` (a dummy for plain children) -/
def innFam (nc : NCase) (c : Nat) : Fam × Nat := (nc.inner c).getD (.joinSlice, 0)

theorem innFam_eq {nc : NCase} {c : Nat} {fam : Fam} {k : Nat} (h : nc.inner c = some (fam, k)) :
    innFam nc c = (fam, k) := by simp [innFam, h]

/-- the virtual scripts of the outer instance before the first poll -/
def finit (nc : NCase) : Nat → List Step := fun c =>
  if (nc.inner c).isSome then [⟨.ready true (9000 + c), []⟩] else nc.scripts c

def mkF (nc : NCase) (ho : ExecN.futFam nc.outer nc.n = true)
    (hi : ∀ c fam k, nc.inner c = some (fam, k) → ExecN.futFam fam k = true) : FNest nc where
  Io := futI nc.outer nc.n
  Jo := futJ nc.outer nc.n
  Fino := futFin nc.outer
  Ii := fun c => futI (innFam nc c).1 (innFam nc c).2
  Ji := fun c => futJ (innFam nc c).1 (innFam nc c).2
  Fini := fun c => futFin (innFam nc c).1
  fvo := fun c => finalVal (finit nc c)
  fvi := fun c g => finalVal ((innerInit nc c).w.scripts g)
  flo := futLike_fam nc.outer nc.n ho
  fli := by
    intro c fam k hin
    simp only [innFam_eq hin]
    exact futLike_fam fam k (hi c fam k hin)
  nd := order_nodup nc.outer (Or.inl (isConc_of_futFam _ _ ho))
  fvn := by
    intro c hs
    simp [finit, hs, finalVal]

theorem futureScript_map (l : List Step) (g : Step → Step) (hg : ∀ st, (g st).res = st.res) :
    Exec.futureScript (l.map g) = Exec.futureScript l := by
  unfold Exec.futureScript
  rw [← List.map_reverse]
  cases l.reverse with
  | nil => rfl
  | cons last init =>
    simp [List.all_map, Function.comp_def, hg]

theorem futScripts_plain {nc : NCase} (h : ExecN.futScripts nc = true) {c : Nat} (hc : c < nc.n)
    (hin : nc.inner c = none) : Exec.futureScript (nc.scripts c) = true := by
  simp only [ExecN.futScripts, List.all_eq_true, List.mem_range] at h
  have := h c hc
  simpa [hin] using this

theorem futScripts_leaf {nc : NCase} (h : ExecN.futScripts nc = true) {c : Nat} {fam : Fam} {k g : Nat}
    (hc : c < nc.n) (hin : nc.inner c = some (fam, k)) (hg : g < k) :
    Exec.futureScript (nc.scripts (leafId c g)) = true := by
  simp only [ExecN.futScripts, List.all_eq_true, List.mem_range] at h
  have := h c hc
  simp only [hin, List.all_eq_true, List.mem_range] at this
  exact this g hg

theorem innerInit_eq {nc : NCase} {c : Nat} {fam : Fam} {k : Nat} (hin : nc.inner c = some (fam, k)) :
    innerInit nc c = FEng.init fam nc.mode k (fun g =>
      (nc.scripts (leafId c g)).map
        (fun st => { st with fires := st.fires.map (fun p => (p.1 % 100, p.2)) })) := by
  simp [innerInit, hin]

/-- the run invariant holds before the first poll -/
theorem lbn_init (nc : NCase) (ho : ExecN.futFam nc.outer nc.n = true)
    (hi : ∀ c fam k, nc.inner c = some (fam, k) → ExecN.futFam fam k = true)
    (hs : ExecN.futScripts nc = true) : LBN nc (mkF nc ho hi) (init nc) := by
  refine ⟨ninv_init nc (Or.inl (isConc_of_futFam _ _ ho))
    (fun c fam k hin => Or.inl (isConc_of_futFam _ _ (hi c fam k hin))), ⟨finit nc, ?_, ?_⟩, ?_⟩
  · intro c hin
    simp [finit, init, FEng.init, World.init, hin]
  · have := lb_init_fam nc.outer nc.n nc.mode (finit nc) ho (by
      intro c hc
      cases hin : nc.inner c with
      | none => simpa [finit, hin] using futScripts_plain hs hc hin
      | some fk => simp [finit, hin, Exec.futureScript])
    exact this
  · intro c fam k hc hin _
    refine ⟨?_, rfl⟩
    show Live2.LB fam.policy (futI (innFam nc c).1 (innFam nc c).2) (fam.modeOf nc.mode)
      (fun g => finalVal ((innerInit nc c).w.scripts g)) k (innerInit nc c)
    rw [innFam_eq hin, innerInit_eq hin]
    exact lb_init_fam fam k nc.mode _ (hi c fam k hin) (by
      intro g hg
      show Exec.futureScript ((nc.scripts (leafId c g)).map _) = true
      rw [futureScript_map (nc.scripts (leafId c g))
        (fun st => { st with fires := st.fires.map (fun p => (p.1 % 100, p.2)) }) (fun _ => rfl)]
      exact futScripts_leaf hs hc hin hg)

/-- before the first poll the measure is the number of scripted steps -/
theorem mu_init (nc : NCase) : mu nc (init nc) = ExecN.stepsLeft nc (init nc) := by
  unfold mu ExecN.stepsLeft total
  congr 1

/-- **liveness of a nest of future combinators** -/
theorem nest_fut_resolves (nc : NCase) (ho : ExecN.futFam nc.outer nc.n = true)
    (hi : ∀ c fam k, nc.inner c = some (fam, k) → ExecN.futFam fam k = true)
    (hwf : ExecN.wellFormed nc = true) (hs : ExecN.futScripts nc = true) :
    ∃ k, k ≤ 3 * ExecN.stepsLeft nc (init nc) + 1 ∧
      ∃ ok vals, lastOut (ExecN.runFor nc k (init nc)).out.w.trace = some (.ready ok vals) ∧
        futFin nc.outer ok vals := by
  have h := resolves_of_lbn hwf (lbn_init nc ho hi hs) rfl
  rw [mu_init] at h
  exact h

end LiveN
end Fc
