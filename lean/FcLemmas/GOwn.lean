/-
  FcLemmas/GOwn.lean — the structural invariant of the group model (FutureGroup / StreamGroup),
  part 1: trace observations and the state invariant `StrA`.

  `StrA s ko dc fn` relates the slab / key set / removal queue / poll states of `s : Grp` to three
  observations of the trace: `ko c` (the key member `c` was inserted under), `dc c` (how often `c`
  was dropped), `fn c` (did `c`'s latest poll finish it).  The lemmas of this file are state-only:
  each says how `StrA` moves under one kind of state change (`release` a member, `insert` one,
  flush the removal queue, bookkeeping that touches none of the fields).
-/
import FcLemmas.SimL
import FcLemmas.SimG
import FcLemmas.C03
import FcLemmas.C02b
import FcLemmas.Fresh
set_option linter.unusedSimpArgs false
set_option linter.unusedVariables false

namespace Fc
namespace GOwn
open Mon Grp

/-! ### trace observations -/

/-- how often child `c` was dropped -/
def dcnt (t : List Ev) (c : Nat) : Nat := (droppedChildren t).count c

theorem gone_of_dcnt {t : List Ev} {c : Nat} (h : dcnt t c = 0) : gone t c = false := by
  induction t with
  | nil => rfl
  | cons e t ih =>
    cases e with
    | childDropped c' =>
      simp only [dcnt, droppedChildren, List.count_cons] at h ih
      by_cases hc : c' = c
      · simp [hc] at h
      · simp only [gone, hc, decide_false, Bool.false_or]
        exact ih (by simpa [hc] using h)
    | _ => exact ih h

/-- events that are not an `inserted` -/
def notIns : Ev → Bool
  | .inserted _ _ => false
  | _ => true

theorem keyOf_notIns (c : Nat) (e : Ev) (t : List Ev) (h : notIns e = true) :
    keyOf (e :: t) c = keyOf t c := by
  cases e <;> simp_all [notIns, keyOf]

theorem fire_notIns (e : Ev) (h : isFireEv e = true) : notIns e = true := by
  cases e <;> simp_all [isFireEv, notIns]
theorem own_notIns (e : Ev) (h : isOwnEv e = true) : notIns e = true := by
  cases e <;> simp_all [isOwnEv, notIns]

theorem keyOf_seg (c : Nat) (l t : List Ev) (hl : ∀ e ∈ l, notIns e = true) :
    keyOf (l ++ t) c = keyOf t c :=
  skip_seg (fun t => keyOf t c) notIns (fun e t h => keyOf_notIns c e t h) l hl t

theorem keyOf_pollSeg (c slot : Nat) (wk : Wk) (l : List Ev) (r : Res) (evs t : List Ev) (x : Nat)
    (hl : ∀ e ∈ l, isFireEv e = true) (he : ∀ e ∈ evs, isOwnEv e = true) :
    keyOf (pollSeg c slot wk l r evs t) x = keyOf t x := by
  unfold pollSeg
  rw [keyOf_seg x evs.reverse _ (fun e h => own_notIns e (he e (List.mem_reverse.mp h))),
    keyOf_notIns x _ _ rfl, keyOf_seg x l _ (fun e h => fire_notIns e (hl e h)),
    keyOf_notIns x _ _ rfl]

/-- events that touch none of the observations of C02 / C03 except `inPoll` and the returned
    values -/
def quietEv : Ev → Bool
  | .pollBegin _ | .fired _ _ _ | .woke _ | .wakePanic | .removed _ _ | .answer _ _ => true
  | .pollEnd o => match o with
    | .ready _ _ => false
    | _ => true
  | _ => false

/-- the values an event hands to the caller -/
def evRet : Ev → List Nat
  | .pollEnd o => C02b.ovals o
  | _ => []

theorem fire_quiet (e : Ev) (h : isFireEv e = true) : quietEv e = true := by
  cases e <;> simp_all [isFireEv, quietEv]

theorem fire_evRet (e : Ev) (h : isFireEv e = true) : evRet e = [] := by
  cases e <;> simp_all [isFireEv, evRet]

section quiet
variable (e : Ev) (t : List Ev) (h : quietEv e = true)
include h

theorem keyOf_quiet (c : Nat) : keyOf (e :: t) c = keyOf t c :=
  keyOf_notIns c e t (by cases e <;> simp_all [quietEv, notIns])

theorem dc_quiet : droppedChildren (e :: t) = droppedChildren t := by
  cases e <;> simp_all [quietEv, droppedChildren]

theorem dcnt_quiet (c : Nat) : dcnt (e :: t) c = dcnt t c := by
  simp [dcnt, dc_quiet e t h]

theorem finished_quiet (c : Nat) : finished (e :: t) c = finished t c :=
  C03.finished_skip e t c (by intro c' r h'; subst h'; simp [quietEv] at h)

theorem nd_quiet : C02b.nd (e :: t) = C02b.nd t := by
  cases e <;> simp_all [quietEv, C02b.nd]

theorem alive_quiet : alive (e :: t) = alive t := by
  cases e <;> simp_all [quietEv, alive]

theorem prod_quiet : producedVals (e :: t) = producedVals t := by
  cases e <;> simp_all [quietEv, producedVals]

theorem ret_quiet : returnedVals (e :: t) = evRet e ++ returnedVals t := by
  cases e with
  | pollEnd o => cases o <;> simp_all [quietEv, returnedVals, evRet, C02b.ovals]
  | _ => simp_all [quietEv, returnedVals, evRet]

theorem dv_quiet : droppedVals (e :: t) = droppedVals t := by
  cases e <;> simp_all [quietEv, droppedVals]

theorem qad_quiet : quietAfterDrop (e :: t) = quietAfterDrop t := by
  cases e <;> simp_all [quietEv, quietAfterDrop]

theorem fs_quiet : finalSeen true (e :: t) = finalSeen true t := by
  cases e with
  | pollEnd o => cases o <;> simp_all [quietEv, finalSeen]
  | _ => simp_all [quietEv, finalSeen]

theorem c03_quiet : holds_C03 true (e :: t) = holds_C03 true t :=
  C03.holds_notCB true e t (by cases e <;> simp_all [quietEv, C03.notCB])

end quiet

/-! ### the slab's vacant list -/

/-- `ch` is the chain of vacant keys from `x` to `entries` (`Slab::next` and the `Vacant(next)`
    payloads) -/
def IsChain (member : Nat → Option Nat) (vac : Nat → Nat) (entries : Nat) : Nat → List Nat → Prop
  | x, [] => x = entries
  | x, y :: l => x = y ∧ member y = none ∧ y < entries ∧ IsChain member vac entries (vac y) l

theorem IsChain.vacant {member vac entries} : ∀ {x : Nat} {ch : List Nat},
    IsChain member vac entries x ch → ∀ y ∈ ch, member y = none := by
  intro x ch
  induction ch generalizing x with
  | nil => intro _ y hy; cases hy
  | cons a l ih =>
    intro h y hy
    obtain ⟨_, h2, _, h4⟩ := h
    rcases List.mem_cons.mp hy with rfl | hy
    · exact h2
    · exact ih h4 y hy

theorem IsChain.congr {member vac member' vac' entries} : ∀ {x : Nat} {ch : List Nat},
    IsChain member vac entries x ch →
    (∀ y ∈ ch, member' y = member y ∧ vac' y = vac y) → IsChain member' vac' entries x ch := by
  intro x ch
  induction ch generalizing x with
  | nil => intro h _; exact h
  | cons a l ih =>
    intro h hc
    obtain ⟨h1, h2, h3, h4⟩ := h
    have ha := hc a (List.mem_cons_self ..)
    refine ⟨h1, by rw [ha.1]; exact h2, h3, ?_⟩
    rw [ha.2]
    exact ih h4 (fun y hy => hc y (List.mem_cons_of_mem _ hy))

/-! ### the sorted key set -/

theorem mem_insertSorted (k x : Nat) (l : List Nat) :
    x ∈ insertSorted k l ↔ x = k ∨ x ∈ l := by
  induction l with
  | nil => simp [insertSorted]
  | cons a l ih =>
    unfold insertSorted
    split
    · simp
    · split
      · rename_i h; subst h; simp
      · simp only [List.mem_cons, ih]
        constructor
        · rintro (h | h | h)
          · exact Or.inr (Or.inl h)
          · exact Or.inl h
          · exact Or.inr (Or.inr h)
        · rintro (h | h | h)
          · exact Or.inr (Or.inl h)
          · exact Or.inl h
          · exact Or.inr (Or.inr h)

theorem pairwise_insertSorted (k : Nat) (l : List Nat) (h : l.Pairwise (· < ·)) :
    (insertSorted k l).Pairwise (· < ·) := by
  induction l with
  | nil => simp [insertSorted]
  | cons a l ih =>
    have hal := List.pairwise_cons.mp h
    unfold insertSorted
    split
    · rename_i hka
      refine List.pairwise_cons.mpr ⟨?_, h⟩
      intro y hy
      rcases List.mem_cons.mp hy with rfl | hy
      · exact hka
      · exact Nat.lt_trans hka (hal.1 y hy)
    · split
      · exact h
      · rename_i h1 h2
        refine List.pairwise_cons.mpr ⟨?_, ih hal.2⟩
        intro y hy
        rcases (mem_insertSorted k y l).mp hy with rfl | hy
        · omega
        · exact hal.1 y hy

theorem nodup_of_sorted {l : List Nat} (h : l.Pairwise (· < ·)) : l.Nodup :=
  List.Pairwise.imp (fun hab => Nat.ne_of_lt hab) h

/-! ### the state invariant -/

structure StrA (s : Grp) (ko : Nat → Option Nat) (dc : Nat → Nat) (fn : Nat → Bool) : Prop where
  /-- the vacant list of the slab -/
  chain : ∃ ch, IsChain s.member s.vac s.entries s.next ch ∧ ch.Nodup
  hi : ∀ k, s.entries ≤ k → s.member k = none
  sorted : s.keys.Pairwise (· < ·)
  /-- every occupied slab key is in the key set … -/
  live : ∀ k, s.member k ≠ none → k ∈ s.keys
  /-- … and the key set holds nothing else, except the keys waiting in the removal queue -/
  kq : ∀ k, k ∈ s.keys → s.member k ≠ none ∨ k ∈ s.queue
  pend : ∀ k, s.st k = .pending ↔ s.member k ≠ none
  qv : ∀ k, k ∈ s.queue → s.member k = none
  /-- a live member was inserted under its key, has not been dropped, and has not finished -/
  mem : ∀ k c, s.member k = some c → ko c = some k ∧ dc c = 0 ∧ fn c = false
  /-- an id that was never inserted has no history -/
  unk : ∀ c, ko c = none → dc c = 0 ∧ fn c = false
  /-- an inserted id that is no longer a member was dropped exactly once -/
  rel : ∀ c, ko c ≠ none → (∀ k, s.member k ≠ some c) → dc c = 1

namespace StrA
variable {s s' : Grp} {ko ko' : Nat → Option Nat} {dc dc' : Nat → Nat} {fn fn' : Nat → Bool}

/-- the key `insert` will use is vacant -/
theorem next_vacant (h : StrA s ko dc fn) : s.member s.next = none := by
  obtain ⟨ch, hc, _⟩ := h.chain
  cases ch with
  | nil => exact h.hi _ (by rw [show s.next = s.entries from hc]; exact Nat.le_refl _)
  | cons a l => obtain ⟨h1, h2, _, _⟩ := hc; rw [h1]; exact h2

/-- live members have distinct ids -/
theorem inj (h : StrA s ko dc fn) {k k' c : Nat} (h1 : s.member k = some c)
    (h2 : s.member k' = some c) : k = k' := by
  have a := (h.mem k c h1).1
  have b := (h.mem k' c h2).1
  rw [a] at b
  exact Option.some.inj b

/-- bookkeeping that touches none of the fields; the trace moved without inserting, dropping or
    finishing anybody -/
theorem same (h : StrA s ko dc fn) (hm : s'.member = s.member) (hv : s'.vac = s.vac)
    (he : s'.entries = s.entries) (hn : s'.next = s.next) (hst : s'.st = s.st)
    (hkeys : s'.keys = s.keys) (hq : s'.queue = s.queue)
    (hko : ∀ x, ko' x = ko x) (hdc : ∀ x, dc' x = dc x) (hfn : ∀ x, fn x = false → fn' x = false) :
    StrA s' ko' dc' fn' := by
  refine ⟨by rw [hm, hv, he, hn]; exact h.chain, by rw [hm, he]; exact h.hi,
    by rw [hkeys]; exact h.sorted, by rw [hm, hkeys]; exact h.live,
    by rw [hm, hkeys, hq]; exact h.kq, by rw [hm, hst]; exact h.pend,
    by rw [hm, hq]; exact h.qv, ?_, ?_, ?_⟩
  · intro k c hk
    rw [hm] at hk
    obtain ⟨a, b, c'⟩ := h.mem k c hk
    exact ⟨by rw [hko]; exact a, by rw [hdc]; exact b, hfn _ c'⟩
  · intro c hc
    rw [hko] at hc
    exact ⟨by rw [hdc]; exact (h.unk c hc).1, hfn _ (h.unk c hc).2⟩
  · intro c hc hk
    rw [hko] at hc
    rw [hm] at hk
    rw [hdc]
    exact h.rel c hc hk

/-- `flushQueue`: the queued keys (all vacant) leave the key set -/
theorem flush (h : StrA s ko dc fn) : StrA s.flushQueue ko dc fn := by
  refine ⟨h.chain, h.hi, ?_, ?_, ?_, h.pend, ?_, h.mem, h.unk, h.rel⟩
  · exact List.Pairwise.filter _ h.sorted
  · intro k hk
    simp only [flushQueue, List.mem_filter, Bool.not_eq_true', List.contains_eq_mem,
      decide_eq_false_iff_not]
    exact ⟨h.live k hk, fun hq => hk (h.qv k hq)⟩
  · intro k hk
    simp only [flushQueue, List.mem_filter, Bool.not_eq_true', List.contains_eq_mem,
      decide_eq_false_iff_not] at hk
    rcases h.kq k hk.1 with h1 | h1
    · exact Or.inl h1
    · exact absurd h1 hk.2
  · intro k hk
    simp [flushQueue] at hk

/-- member `c` under key `k` leaves the slab (it finished, or was removed) and is dropped; its key
    leaves the key set at once (`inl`) or is queued for removal (`inr`) -/
theorem release (h : StrA s ko dc fn) {k c : Nat} (hk : s.member k = some c)
    (hm : s'.member = upd s.member k none) (hv : s'.vac = upd s.vac k s.next) (hn : s'.next = k)
    (he : s'.entries = s.entries) (hst : s'.st = upd s.st k .none)
    (hK : (s'.keys = s.keys.filter (· ≠ k) ∧ s'.queue = s.queue) ∨
          (s'.keys = s.keys ∧ s'.queue = s.queue ++ [k]))
    (hko : ∀ x, ko' x = ko x) (hdc : ∀ x, dc' x = dc x + (if x = c then 1 else 0))
    (hfn : ∀ x, x ≠ c → fn x = false → fn' x = false) : StrA s' ko' dc' fn' := by
  have hkc := h.mem k c hk
  have hne : ∀ x c', s.member x = some c' → x ≠ k → c' ≠ c := by
    intro x c' hx hxk hcc
    subst hcc
    exact hxk (h.inj hx hk)
  refine ⟨?_, ?_, ?_, ?_, ?_, ?_, ?_, ?_, ?_, ?_⟩
  · obtain ⟨ch, hc, hnd⟩ := h.chain
    have hkch : k ∉ ch := fun hin => by
      have := hc.vacant k hin
      rw [hk] at this; cases this
    have hke : k < s.entries := by
      refine Nat.lt_of_not_le (fun hle => ?_)
      have := h.hi k hle
      rw [hk] at this; cases this
    refine ⟨k :: ch, ?_, List.nodup_cons.mpr ⟨hkch, hnd⟩⟩
    rw [hm, hv, hn, he]
    refine ⟨rfl, by simp, hke, ?_⟩
    rw [upd_same]
    refine hc.congr (fun y hy => ?_)
    have hyk : y ≠ k := fun hyk => hkch (hyk ▸ hy)
    exact ⟨upd_other _ _ _ _ hyk, upd_other _ _ _ _ hyk⟩
  · intro x hx
    rw [he] at hx
    rw [hm]
    by_cases hxk : x = k
    · subst hxk; simp
    · rw [upd_other _ _ _ _ hxk]; exact h.hi x hx
  · rcases hK with ⟨h1, _⟩ | ⟨h1, _⟩ <;> rw [h1]
    · exact List.Pairwise.filter _ h.sorted
    · exact h.sorted
  · intro x hx
    rw [hm] at hx
    have hxk : x ≠ k := fun hxk => by subst hxk; simp at hx
    rw [upd_other _ _ _ _ hxk] at hx
    rcases hK with ⟨h1, _⟩ | ⟨h1, _⟩ <;> rw [h1]
    · simp only [List.mem_filter, decide_eq_true_eq]
      exact ⟨h.live x hx, hxk⟩
    · exact h.live x hx
  · intro x hx
    rw [hm]
    rcases hK with ⟨h1, h2⟩ | ⟨h1, h2⟩ <;> rw [h1] at hx <;> rw [h2]
    · simp only [List.mem_filter, decide_eq_true_eq] at hx
      rw [upd_other _ _ _ _ hx.2]
      exact h.kq x hx.1
    · by_cases hxk : x = k
      · right; subst hxk; simp
      · rw [upd_other _ _ _ _ hxk]
        rcases h.kq x hx with h3 | h3
        · exact Or.inl h3
        · exact Or.inr (List.mem_append_left _ h3)
  · intro x
    rw [hm, hst]
    by_cases hxk : x = k
    · subst hxk; simp
    · rw [upd_other _ _ _ _ hxk, upd_other _ _ _ _ hxk]; exact h.pend x
  · intro x hx
    rw [hm]
    by_cases hxk : x = k
    · subst hxk; simp
    · rw [upd_other _ _ _ _ hxk]
      rcases hK with ⟨_, h2⟩ | ⟨_, h2⟩ <;> rw [h2] at hx
      · exact h.qv x hx
      · rcases List.mem_append.mp hx with h3 | h3
        · exact h.qv x h3
        · simp at h3; exact absurd h3 hxk
  · intro x c' hx
    rw [hm] at hx
    have hxk : x ≠ k := fun hxk => by subst hxk; simp at hx
    rw [upd_other _ _ _ _ hxk] at hx
    obtain ⟨a, b, d⟩ := h.mem x c' hx
    have hcc := hne x c' hx hxk
    exact ⟨by rw [hko]; exact a, by rw [hdc]; simp [hcc, b], hfn _ hcc d⟩
  · intro x hx
    rw [hko] at hx
    have hxc : x ≠ c := fun hxc => by subst hxc; rw [hkc.1] at hx; cases hx
    exact ⟨by rw [hdc]; simp [hxc, (h.unk x hx).1], hfn _ hxc (h.unk x hx).2⟩
  · intro x hx hall
    rw [hko] at hx
    rw [hdc]
    by_cases hxc : x = c
    · subst hxc; simp [hkc.2.1]
    · simp only [hxc, if_false, Nat.add_zero]
      refine h.rel x hx (fun y hy => ?_)
      by_cases hyk : y = k
      · subst hyk
        rw [hk] at hy
        exact hxc (Option.some.inj hy).symm
      · have := hall y
        rw [hm, upd_other _ _ _ _ hyk] at this
        exact this hy

/-- a fresh member `c` enters the slab at `next` (`Slab::insert_at`) -/
theorem insert (h : StrA s ko dc fn) (hq : s.queue = []) {c : Nat} (hc : ko c = none)
    (hm : s'.member = upd s.member s.next (some c)) (hv : s'.vac = s.vac)
    (hne : (s.next = s.entries ∧ s'.entries = s.entries + 1 ∧ s'.next = s.next + 1) ∨
           (s.next ≠ s.entries ∧ s'.entries = s.entries ∧ s'.next = s.vac s.next))
    (hst : s'.st = upd s.st s.next .pending) (hkeys : s'.keys = insertSorted s.next s.keys)
    (hqu : s'.queue = s.queue)
    (hko : ∀ x, ko' x = if x = c then some s.next else ko x) (hdc : ∀ x, dc' x = dc x)
    (hfn : ∀ x, fn' x = fn x) : StrA s' ko' dc' fn' := by
  have hvac := h.next_vacant
  have hne' : ∀ x c', s.member x = some c' → c' ≠ c := by
    intro x c' hx hcc
    subst hcc
    rw [(h.mem x c' hx).1] at hc; cases hc
  refine ⟨?_, ?_, ?_, ?_, ?_, ?_, ?_, ?_, ?_, ?_⟩
  · obtain ⟨ch, hch, hnd⟩ := h.chain
    rw [hm, hv]
    rcases hne with ⟨h1, h2, h3⟩ | ⟨h1, h2, h3⟩
    · rw [h2, h3]
      refine ⟨[], ?_, List.nodup_nil⟩
      show s.next + 1 = s.entries + 1
      rw [h1]
    · rw [h2, h3]
      cases ch with
      | nil => exact absurd hch h1
      | cons a l =>
        obtain ⟨e1, e2, e3, e4⟩ := hch
        have hnd' := List.nodup_cons.mp hnd
        refine ⟨l, ?_, hnd'.2⟩
        rw [e1]
        refine e4.congr (fun y hy => ⟨?_, rfl⟩)
        have : y ≠ a := fun hya => hnd'.1 (hya ▸ hy)
        rw [upd_other _ _ _ _ this]
  · intro x hx
    rw [hm]
    rcases hne with ⟨h1, h2, h3⟩ | ⟨h1, h2, h3⟩
    · rw [h2] at hx
      rw [upd_other _ _ _ _ (by omega)]
      exact h.hi x (by omega)
    · rw [h2] at hx
      have : x ≠ s.next := by
        intro hxn
        obtain ⟨ch, hch, _⟩ := h.chain
        cases ch with
        | nil => exact h1 hch
        | cons a l => obtain ⟨e1, _, e3, _⟩ := hch; omega
      rw [upd_other _ _ _ _ this]
      exact h.hi x hx
  · rw [hkeys]; exact pairwise_insertSorted _ _ h.sorted
  · intro x hx
    rw [hkeys, mem_insertSorted]
    by_cases hxn : x = s.next
    · exact Or.inl hxn
    · rw [hm, upd_other _ _ _ _ hxn] at hx
      exact Or.inr (h.live x hx)
  · intro x hx
    rw [hkeys, mem_insertSorted] at hx
    left
    rw [hm]
    by_cases hxn : x = s.next
    · subst hxn; simp
    · rw [upd_other _ _ _ _ hxn]
      rcases hx with hx | hx
      · exact absurd hx hxn
      · rcases h.kq x hx with h3 | h3
        · exact h3
        · rw [hq] at h3; cases h3
  · intro x
    rw [hm, hst]
    by_cases hxn : x = s.next
    · subst hxn; simp
    · rw [upd_other _ _ _ _ hxn, upd_other _ _ _ _ hxn]; exact h.pend x
  · intro x hx
    rw [hqu, hq] at hx; cases hx
  · intro x c' hx
    rw [hm] at hx
    by_cases hxn : x = s.next
    · subst hxn
      simp only [upd_same, Option.some.injEq] at hx
      subst hx
      exact ⟨by rw [hko]; simp, by rw [hdc]; exact (h.unk _ hc).1, by rw [hfn]; exact (h.unk _ hc).2⟩
    · rw [upd_other _ _ _ _ hxn] at hx
      obtain ⟨a, b, d⟩ := h.mem x c' hx
      exact ⟨by rw [hko]; simp [hne' x c' hx, a], by rw [hdc]; exact b, by rw [hfn]; exact d⟩
  · intro x hx
    rw [hko] at hx
    by_cases hxc : x = c
    · simp [hxc] at hx
    · simp only [hxc, if_false] at hx
      exact ⟨by rw [hdc]; exact (h.unk x hx).1, by rw [hfn]; exact (h.unk x hx).2⟩
  · intro x hx hall
    have hxc : x ≠ c := by
      intro hxc
      have := hall s.next
      rw [hm, upd_same, hxc] at this
      exact this rfl
    rw [hko] at hx
    simp only [hxc, if_false] at hx
    rw [hdc]
    refine h.rel x hx (fun y hy => ?_)
    by_cases hyn : y = s.next
    · subst hyn; rw [hvac] at hy; cases hy
    · have := hall y
      rw [hm, upd_other _ _ _ _ hyn] at this
      exact this hy

end StrA

end GOwn
end Fc
