/-
  FcLemmas/Live3Chain.lean — liveness of `chain` under the wake-only executor.

  chain is strictly sequential and hands the caller's waker to its inputs (direct mode): every poll
  of a live chain polls the input it is at (so every poll consumes a scripted step), and it returns
  `Pending` exactly when that input answered `Pending` — which is then the waiting child the
  environment prods.  The C01 part is the sequential invariant `C01S.BS`, the functional part the
  C10 invariant (`index` is the first input that has not ended).
-/
import FcLemmas.Live3Run
import FcLemmas.C01Seq
import FcLemmas.C10
set_option linter.unusedSimpArgs false
set_option linter.unusedVariables false

namespace Fc
namespace Live3
open Mon Live Fix

theorem chain_evs (s : Fix) (i : Nat) (r : Res) : (chain.handle s i r).evs = [] := by
  cases r <;> rfl

/-- what a poll that left the loop through a handler knows: the input it was at has been polled
    (and has answered `Pending` if that is what the poll returns) -/
def ChainExit (n : Nat) (o : Outcome) (w : World) : Prop :=
  ∃ c, c < n ∧ polledSince w.trace c = true ∧ (o = .pending → lastRes w.trace c = some .pend)

theorem chain_scan {n : Nat} {len0 : Nat → Nat} {t0 : List Ev} :
    ∀ (l : List Nat) (e : Eng Fix), e.w.mode = .direct → C10.J n e.s e.w.trace l →
      PInvS n len0 t0 e.w →
      PInvS n len0 t0 (Eng.scan chain l e).1.w ∧
      (∀ o, (Eng.scan chain l e).2 = some o → ChainExit n o (Eng.scan chain l e).1.w) := by
  intro l
  induction l with
  | nil =>
    intro e _ _ hp
    exact ⟨hp, fun o ho => by simp [Eng.scan] at ho⟩
  | cons i rest ih =>
    intro e hm hJ hp
    obtain ⟨hI, hd, h0, hlist⟩ := hJ
    obtain ⟨hic, hk, _⟩ := C10.range_head hlist
    have hi : i < n := by omega
    have hun : chain.eligible e.s i = true → lastRes e.w.trace i ≠ some .fin := by
      intro _
      have := hI.after hd i (by omega)
      intro hf; simp [ended, hf] at this
    have hv := pinvs_visit lawful_chain chain_evs e i hi hp hun
    have hgo : Eng.gateGo chain e i = true := by
      unfold Eng.gateGo
      rw [World.isSet_direct _ _ hm]; rfl
    obtain ⟨hkind, hps, hlr, hex, _⟩ := hv.2.2.1 hgo (fun hl => by cases hl)
    have hT := Sim.visitT (C10.sim_chain n) e i rest hm (Sim.scriptsOk_any _) ⟨hI, hd, h0, hlist⟩
    unfold Eng.scan
    cases hvis : (Eng.visit chain e i).2 with
    | some o =>
      simp only
      refine ⟨hv.1, fun o' ho' => ?_⟩
      simp only [Option.some.injEq] at ho'
      subst ho'
      refine ⟨i, hi, hps, fun hop => ?_⟩
      rw [hlr]; simp only [if_true]
      rw [hex] at hvis
      rcases hkind with hr | ⟨v, hr⟩ | hr
      · rw [hr]
      · rw [hr, hop] at hvis; simp [chain] at hvis
      · rw [hr] at hvis; simp [chain] at hvis
    | none =>
      simp only
      exact ih _ hT.1 (hT.2.2.1 hvis) hv.1

/-- one top-level poll of a chain -/
theorem pends_poll_chain {n : Nat} (e : Eng Fix) (wid : Nat) (hm : e.w.mode = .direct)
    (hI : C10.Inv n e.s e.w.trace) (hw : WInvS n e.w) (hsp : spent false e.w.trace = false) :
    PEndS n (fun c => (e.w.scripts c).length) e.w.trace (Eng.poll chain e wid).w ∧
    (∀ o, lastOut (Eng.poll chain e wid).w.trace = some o → o ≠ .none → o ≠ .misuse →
      ChainExit n o (Eng.poll chain e wid).w) := by
  have hbeg := pinvs_begin wid hw hsp
  unfold Eng.poll
  split
  · rename_i o ho
    have hb' : PInvS n (fun c => (e.w.scripts c).length) e.w.trace (e.w.emit (.pollBegin wid)) :=
      pinvs_congr (w := (e.w.emit (.pollBegin wid)).setWaker wid) rfl rfl rfl hbeg
    have hmis : o = .misuse := by
      simp only [chain, Fix.misuseIfDead] at ho
      split at ho
      · simpa using ho.symm
      · cases ho
    subst hmis
    refine ⟨pends_of_pinvs hb' _ (fun k vs hk => by cases hk), ?_⟩
    intro o ho _ hnm
    simp only [Eng.emit_w, World.emit_trace, lastOut, Option.some.injEq] at ho
    exact absurd ho.symm hnm
  · rename_i hpre
    unfold Eng.body
    simp only
    split
    · rename_i hc; simp [chain] at hc
    · have hJ := (C10.sim_chain n).start _ _ wid hpre hI
      have hs := chain_scan (chain.order e.s)
        { w := (e.w.emit (.pollBegin wid)).setWaker wid, s := chain.start e.s } hm hJ hbeg
      unfold Eng.close
      split
      · rename_i o ho
        have hx := hs.2 o ho
        refine ⟨pends_of_pinvs hs.1 _ (fun k vs _ => ?_), ?_⟩
        · obtain ⟨c, _, hc, _⟩ := hx
          exact ⟨c, hc⟩
        · intro o' ho' _ _
          simp only [Eng.emit_w, World.emit_trace, lastOut, Option.some.injEq] at ho'
          subst ho'
          obtain ⟨c, hc, hps, hp⟩ := hx
          exact ⟨c, hc, by simpa [polledSince] using hps, fun hop => by simpa [lastRes] using hp hop⟩
      · rename_i hn
        refine ⟨pends_of_pinvs (pinvs_congr ?_ ?_ ?_ hs.1) _ (fun k vs hk => by
          simp [chain] at hk), ?_⟩
        · simp [kop_scripts, emits_scripts]
        · simp [kop_handed]
        · simp [chain]
        · intro o' ho' hnn _
          simp [chain, lastOut] at ho'
          exact absurd ho'.symm hnn

/-! ### the run invariant -/

structure LBC (n : Nat) (e : Eng Fix) : Prop where
  mode : e.w.mode = .direct
  bs : C01S.BS chain n e
  fi : C10.Inv n e.s e.w.trace
  wi : WInvS n e.w
  sp : spent false e.w.trace = false
  lo : lastOut e.w.trace = none ∨ lastOut e.w.trace = some .pending ∨
    ∃ k vs, lastOut e.w.trace = some (.some k vs)
  pc : lastOut e.w.trace = some .pending → ∃ c, c < n ∧ lastRes e.w.trace c = some .pend

variable {n : Nat}

theorem lbc_fire (e : Eng Fix) (c a : Nat) (h : LBC n e) : LBC n (e.fire c a) := by
  obtain ⟨l, hl, hp⟩ := World.fire_seg e.w c a
  have hlo : lastOut (e.fire c a).w.trace = lastOut e.w.trace := C01.lastOut_fire e.w c a
  refine ⟨by simpa using h.mode, C01S.bs_fire e c a h.bs,
    (Sim.fireT (C10.sim_chain n) e c a h.mode (Sim.scriptsOk_any _) h.fi).2.2,
    winvs_fire e.w c a h.wi, ?_, by rw [hlo]; exact h.lo, ?_⟩
  · simp only [Eng.fire_w, hl]
    rw [spent_fires false l _ hp]; exact h.sp
  · intro hp'
    rw [hlo] at hp'
    obtain ⟨j, hj, hlr⟩ := h.pc hp'
    exact ⟨j, hj, by simpa [C16.lastRes_fire] using hlr⟩

theorem lbc_poll (e : Eng Fix) (wid : Nat) (h : LBC n e) :
    lastOut (Eng.poll chain e wid).w.trace = some .none ∨
    (LBC n (Eng.poll chain e wid) ∧
      Exec.stepsLeft n (Eng.poll chain e wid) ≤ Exec.stepsLeft n e ∧
      ((lastOut (Eng.poll chain e wid).w.trace ≠ some .pending ∧
          Exec.stepsLeft n (Eng.poll chain e wid) < Exec.stepsLeft n e) ∨
       (lastOut (Eng.poll chain e wid).w.trace = some .pending ∧
          (Exec.stepsLeft n (Eng.poll chain e wid) < Exec.stepsLeft n e ∨
            wokeSince (Eng.poll chain e wid).w.trace = false) ∧
          (∀ c, c < n → lastRes e.w.trace c = some .pend → owes e.w.trace c = true →
            Exec.stepsLeft n (Eng.poll chain e wid) < Exec.stepsLeft n e)))) := by
  obtain ⟨hP, hX⟩ := pends_poll_chain e wid h.mode h.fi h.wi h.sp
  have hT := Sim.pollT (C10.sim_chain n) e wid h.mode (Sim.scriptsOk_any _) h.fi
  have hbs := C01S.bs_poll seq_chain e wid h.bs
  have hnowp : c01NoPanic (Eng.poll chain e wid).w.trace = true := hbs.b.kd.nowp
  have hfi := hT.2.2
  obtain ⟨o, t, ht, hspt, hpnt⟩ := hP.shape
  have hmon := hfi.mon
  rw [ht] at hnowp hmon
  simp only [holds_C10, Bool.and_eq_true] at hmon
  have hc10 := hmon.1.2
  have hLe : ∀ c, c < n → ((Eng.poll chain e wid).w.scripts c).length ≤ (e.w.scripts c).length :=
    fun c _ => hP.le c
  have hle : Exec.stepsLeft n (Eng.poll chain e wid) ≤ Exec.stepsLeft n e := total_le _ _ n hLe
  have hlt : ChainExit n o (Eng.poll chain e wid).w →
      Exec.stepsLeft n (Eng.poll chain e wid) < Exec.stepsLeft n e := by
    intro ⟨c, hc, hps, _⟩
    exact total_lt _ _ n hLe c hc (hP.ps c hps).2
  have hlo : lastOut (Eng.poll chain e wid).w.trace = some o := by rw [ht]; rfl
  cases o with
  | pending =>
    right
    have hx := hX _ hlo (by simp) (by simp)
    refine ⟨⟨hT.1, hbs, hT.2.2, hP.wi, ?_, Or.inr (Or.inl hlo), fun _ => ?_⟩, hle,
      Or.inr ⟨hlo, Or.inl (hlt hx), fun _ _ _ _ => hlt hx⟩⟩
    · rw [ht]; simpa [spent, finalSeen, alive, panickedSeen] using hspt
    · obtain ⟨c, hc, _, hp⟩ := hx
      exact ⟨c, hc, hp rfl⟩
  | ready ok vals => simp [c10At] at hc10
  | some k vals =>
    right
    have hx := hX _ hlo (by simp) (by simp)
    refine ⟨⟨hT.1, hbs, hT.2.2, hP.wi, ?_, Or.inr (Or.inr ⟨k, vals, hlo⟩), fun hp => ?_⟩, hle,
      Or.inl ⟨by rw [hlo]; simp, hlt hx⟩⟩
    · rw [ht]; simpa [spent, finalSeen, alive, panickedSeen] using hspt
    · rw [hlo] at hp; cases hp
  | none => left; exact hlo
  | panicked =>
    simp only [c01NoPanic, Bool.and_eq_true] at hnowp
    rw [hpnt] at hnowp; exact absurd hnowp.2 (by simp)
  | misuse =>
    simp only [c10At] at hc10
    rw [hspt] at hc10; exact Bool.noConfusion hc10

theorem prog_lbc : Prog chain n (LBC n) where
  lo := fun e h => h.lo
  poll := fun e wid h => lbc_poll e wid h
  fire := fun e c h => lbc_fire e c 0 h
  waiting := by
    intro e h hlo
    obtain ⟨c, hc, hlr⟩ := h.pc hlo
    refine ⟨c, hc, hlr, ?_⟩
    rcases h.wi.str c hc with hs | hs
    · exact ss_ne_nil _ hs.1
    · rw [hlr] at hs; cases hs
  woke := by
    intro e c h hlo hc hlr
    have h' := lbc_fire e c 0 h
    have := fire_woke e.w c h.wi (C01D.quiet_of_binv _ h'.bs.b) h.sp hlo hc hlr
    exact ⟨this.1, this.2.2⟩

theorem lbc_init (m : Mode) (n : Nat) (scripts : Nat → List Step)
    (hs : ∀ c, c < n → streamScript (scripts c) = true) :
    LBC n (FEng.init .chain m n scripts) := by
  refine ⟨rfl, C01S.bs_init .chain n scripts m rfl, ?_, winvs_init _ n scripts hs, rfl, Or.inl rfl, ?_⟩
  · simpa [FEng.init, Fam.initCnt, World.init] using C10.inv_init n
  · intro hc; simp [FEng.init, World.init, lastOut] at hc

theorem chain_ends (m : Mode) (n : Nat) (scripts : Nat → List Step)
    (hs : ∀ c, c < n → streamScript (scripts c) = true) :
    ∃ k, k ≤ 3 * Exec.stepsLeft n (FEng.init .chain m n scripts) + 1 ∧
      lastOut (Exec.runFor Fc.chain n k (FEng.init .chain m n scripts)).w.trace = some .none :=
  ends_of_prog prog_lbc _ (lbc_init m n scripts hs) rfl

end Live3
end Fc
