/-
  FcLemmas/GrpLink.lean — the link between the slab of a group and the ghost observations of the
  trace: `keyOf` (key a member was inserted under), `gone`, `lastRes`, `lastWk`.
-/
import FcLemmas.GrpSlab
import FcLemmas.C01StdEng

set_option linter.unusedSimpArgs false
set_option linter.unusedVariables false

namespace Fc
namespace G
open Mon Grp

structure Link (s : Grp) (t : List Ev) : Prop where
  /-- a member sits under the key it was inserted under -/
  f1 : ∀ k c, s.member k = some c → keyOf t c = some k
  /-- a child that was polled and not released is a member -/
  f3 : ∀ c, lastRes t c ≠ none → gone t c = false → ∃ k, s.member k = some c
  /-- an inserted child that was not released is still where it was put -/
  f4 : ∀ c k, keyOf t c = some k → gone t c = false → s.member k = some c
  /-- only inserted children are ever polled -/
  fw : ∀ c, lastWk t c ≠ none → keyOf t c ≠ none
  fr : ∀ c, lastRes t c ≠ none → keyOf t c ≠ none

theorem Link.inj {s : Grp} {t : List Ev} (h : Link s t) {k k' c : Nat} (h1 : s.member k = some c)
    (h2 : s.member k' = some c) : k = k' := by
  have a := h.f1 k c h1
  have b := h.f1 k' c h2
  rw [a] at b; exact Option.some.inj b

/-- events that do not insert a member and do not poll a child -/
def lkNeutral : Ev → Bool
  | .inserted _ _ | .childBegin _ _ _ | .childEnd _ _ => false
  | _ => true

theorem link_emit {s : Grp} {t : List Ev} (e : Ev) (hn : lkNeutral e = true) (h : Link s t) :
    Link s (e :: t) := by
  have h1 : ∀ c, keyOf (e :: t) c = keyOf t c := by intro c; cases e <;> simp_all [lkNeutral, keyOf]
  have h2 : ∀ c, lastRes (e :: t) c = lastRes t c := by
    intro c; cases e <;> simp_all [lkNeutral, lastRes]
  have h3 : ∀ c, lastWk (e :: t) c = lastWk t c := by
    intro c; cases e <;> simp_all [lkNeutral, lastWk]
  have h4 : ∀ c, gone (e :: t) c = false → gone t c = false := by
    intro c; cases e <;> simp_all [lkNeutral, gone]
  refine ⟨fun k c hm => by rw [h1]; exact h.f1 k c hm,
    fun c hl hg => h.f3 c (by rw [← h2]; exact hl) (h4 c hg),
    fun c k hk hg => h.f4 c k (by rw [← h1]; exact hk) (h4 c hg),
    fun c hl => by rw [h1]; exact h.fw c (by rw [← h3]; exact hl),
    fun c hl => by rw [h1]; exact h.fr c (by rw [← h2]; exact hl)⟩

theorem link_seg {s : Grp} {t : List Ev} (l : List Ev) (hl : ∀ e ∈ l, lkNeutral e = true)
    (h : Link s t) : Link s (l ++ t) := by
  induction l with
  | nil => exact h
  | cons e l ih =>
    exact link_emit e (hl e (List.mem_cons_self ..))
      (ih (fun e' he' => hl e' (List.mem_cons_of_mem _ he')))

theorem fireEv_lk (e : Ev) (h : isFireEv e = true) : lkNeutral e = true := by
  cases e <;> simp_all [isFireEv, lkNeutral]

theorem ownEv_lk (e : Ev) (h : isOwnEv e = true) : lkNeutral e = true := by
  cases e <;> simp_all [isOwnEv, lkNeutral]

theorem link_emits_own {s : Grp} {w : World} (l : List Ev) (hl : ∀ e ∈ l, isOwnEv e = true)
    (h : Link s w.trace) : Link s (w.emits l).trace := by
  simp only [World.emits_trace]
  exact link_seg _ (fun e he => ownEv_lk e (hl e (List.mem_reverse.mp he))) h

theorem link_fire {s : Grp} {w : World} (c a : Nat) (h : Link s w.trace) :
    Link s (w.fire c a).trace := by
  obtain ⟨l, hl, hp⟩ := World.fire_seg w c a
  rw [hl]; exact link_seg l (fun e he => fireEv_lk e (hp e he)) h

/-- polling a member -/
theorem link_pollChild {s : Grp} {w : World} (c k : Nat) (hm : s.member k = some c)
    (h : Link s w.trace) : Link s (w.pollChild c k).trace := by
  obtain ⟨l, hl, hp⟩ := World.pollChild_seg w c k
  have hkc := h.f1 k c hm
  have h0 : Link s (Ev.childBegin c k (w.wakerFor k) :: w.trace) := by
    refine ⟨fun k' c' hm' => by simpa [keyOf] using h.f1 k' c' hm',
      fun c' hl' hg => h.f3 c' (by simpa [lastRes] using hl') (by simpa [gone] using hg),
      fun c' k' hk hg => h.f4 c' k' (by simpa [keyOf] using hk) (by simpa [gone] using hg), ?_,
      fun c' hl' => by simpa [keyOf] using h.fr c' (by simpa [lastRes] using hl')⟩
    intro c' hl'
    simp only [lastWk, keyOf] at hl' ⊢
    split at hl'
    · rename_i hcc; subst hcc; rw [hkc]; simp
    · exact h.fw c' hl'
  have h1 := link_seg l (fun e he => fireEv_lk e (hp e he)) h0
  rw [hl]
  refine ⟨fun k' c' hm' => by simpa [keyOf] using h1.f1 k' c' hm', ?_,
    fun c' k' hk hg => h1.f4 c' k' (by simpa [keyOf] using hk) (by simpa [gone] using hg),
    fun c' hl' => by simpa [keyOf] using h1.fw c' (by simpa [lastWk] using hl'), ?_⟩
  · intro c' hl' hg
    by_cases hcc : c = c'
    · subst hcc; exact ⟨k, hm⟩
    · simp only [lastRes, hcc, if_false] at hl'
      exact h1.f3 c' hl' (by simpa [gone] using hg)
  · intro c' hl'
    simp only [keyOf]
    by_cases hcc : c = c'
    · subst hcc
      have := h1.f1 k c hm
      rw [this]; simp
    · simp only [lastRes, hcc, if_false] at hl'
      exact h1.fr c' hl'

/-- a member is released -/
theorem link_leave {s s' : Grp} {t : List Ev} (k c : Nat) (hm : s.member k = some c)
    (hs : s'.member = upd s.member k none) (h : Link s t) : Link s' (.childDropped c :: t) := by
  refine ⟨?_, ?_, ?_, fun c' hl => by simpa [keyOf] using h.fw c' (by simpa [lastWk] using hl),
    fun c' hl => by simpa [keyOf] using h.fr c' (by simpa [lastRes] using hl)⟩
  · intro k' c' hm'
    rw [hs] at hm'
    have hk : k' ≠ k := by intro hh; subst hh; simp at hm'
    rw [upd_other _ _ _ _ hk] at hm'
    simpa [keyOf] using h.f1 k' c' hm'
  · intro c' hl hg
    simp only [gone, Bool.or_eq_false_iff, decide_eq_false_iff_not] at hg
    obtain ⟨k', hk'⟩ := h.f3 c' (by simpa [lastRes] using hl) hg.2
    refine ⟨k', ?_⟩
    have hk : k' ≠ k := by
      intro hh; subst hh; rw [hm] at hk'; exact hg.1 (Option.some.inj hk')
    rw [hs, upd_other _ _ _ _ hk]; exact hk'
  · intro c' k' hk' hg
    simp only [gone, Bool.or_eq_false_iff, decide_eq_false_iff_not] at hg
    have := h.f4 c' k' (by simpa [keyOf] using hk') hg.2
    have hk : k' ≠ k := by
      intro hh; subst hh; rw [hm] at this; exact hg.1 (Option.some.inj this)
    rw [hs, upd_other _ _ _ _ hk]; exact this

/-- a fresh member is inserted -/
theorem link_insert {s s' : Grp} {t : List Ev} (k c : Nat) (hv : s.member k = none)
    (hf : keyOf t c = none) (hs : s'.member = upd s.member k (some c)) (h : Link s t) :
    Link s' (.inserted c k :: t) := by
  have hnm : ∀ k', s.member k' ≠ some c := by
    intro k' hk'; have := h.f1 k' c hk'; rw [hf] at this; simp at this
  refine ⟨?_, ?_, ?_, ?_, ?_⟩
  · intro k' c' hm'
    rw [hs] at hm'
    simp only [keyOf]
    by_cases hk : k' = k
    · subst hk; rw [upd_same] at hm'; simp [Option.some.inj hm']
    · rw [upd_other _ _ _ _ hk] at hm'
      have hcc : c ≠ c' := by intro hh; subst hh; exact hnm k' hm'
      simp only [hcc, if_false]; exact h.f1 k' c' hm'
  · intro c' hl hg
    obtain ⟨k', hk'⟩ := h.f3 c' (by simpa [lastRes] using hl) (by simpa [gone] using hg)
    have hk : k' ≠ k := by intro hh; subst hh; rw [hv] at hk'; simp at hk'
    exact ⟨k', by rw [hs, upd_other _ _ _ _ hk]; exact hk'⟩
  · intro c' k' hk' hg
    simp only [keyOf] at hk'
    rw [hs]
    by_cases hcc : c = c'
    · subst hcc; simp only [if_true, Option.some.injEq] at hk'; subst hk'; simp
    · simp only [hcc, if_false] at hk'
      have := h.f4 c' k' hk' (by simpa [gone] using hg)
      have hk : k' ≠ k := by intro hh; subst hh; rw [hv] at this; simp at this
      rw [upd_other _ _ _ _ hk]; exact this
  · intro c' hl
    simp only [keyOf]
    by_cases hcc : c = c'
    · simp [hcc]
    · simp only [hcc, if_false]; exact h.fw c' (by simpa [lastWk] using hl)
  · intro c' hl
    simp only [keyOf]
    by_cases hcc : c = c'
    · simp [hcc]
    · simp only [hcc, if_false]; exact h.fr c' (by simpa [lastRes] using hl)

theorem link_congr {s s' : Grp} {t : List Ev} (hs : s'.member = s.member) (h : Link s t) :
    Link s' t :=
  ⟨by rw [hs]; exact h.f1, by rw [hs]; exact h.f3, by rw [hs]; exact h.f4, h.fw, h.fr⟩

theorem link_init (a b : Bool) : Link (Grp.init a b) [] :=
  ⟨fun k c h => by simp [Grp.init] at h, fun c h => by simp [lastRes] at h,
    fun c k h => by simp [keyOf] at h, fun c h => by simp [lastWk] at h,
    fun c h => by simp [lastRes] at h⟩

end G
end Fc
