/-
  Two list facts shared by the tie proofs of several families (counting the slots in a state, `mapM` over slots that are
  all filled).  Imports nothing generated, so that the families stay independent of each other's source.
-/
namespace Fc
namespace TieTryJoinV

/-- switching off one counted position lowers the count by one -/
theorem tj_filter_dec (p p' : Nat → Bool) (i : Nat) : ∀ n, i < n → p i = true → p' i = false →
    (∀ j, j ≠ i → p' j = p j) →
    ((List.range n).filter p').length + 1 = ((List.range n).filter p).length := by
  intro n
  induction n with
  | zero => intro h; omega
  | succ n ih =>
    intro hi hp hp' hoth
    rw [List.range_succ, List.filter_append, List.filter_append, List.length_append, List.length_append]
    by_cases hin : i = n
    · subst hin
      have : (List.range i).filter p' = (List.range i).filter p := by
        apply List.filter_congr
        intro j hj
        exact hoth j (by have := List.mem_range.mp hj; omega)
      rw [this]
      simp [List.filter, hp, hp']
    · have := ih (by omega) hp hp' hoth
      have hn : p' n = p n := hoth n (by omega)
      simp only [List.filter, hn]
      omega

theorem tj_filter_zero (p : Nat → Bool) (n : Nat) (h : ((List.range n).filter p).length = 0) :
    ∀ i, i < n → p i = false := by
  intro i hi
  have := List.length_eq_zero_iff.mp h
  rw [List.filter_eq_nil_iff] at this
  have := this i (List.mem_range.mpr hi)
  simpa using this

theorem tj_mapM_some (f : Nat → Option Nat) : ∀ l : List Nat, (∀ i ∈ l, ∃ v, f i = some v) →
    l.mapM f = some (l.map (fun i => (f i).getD 0)) := by
  intro l
  induction l with
  | nil => intro _; rfl
  | cons x l ih =>
    intro h
    obtain ⟨v, hv⟩ := h x (List.mem_cons_self ..)
    have := ih (fun i hi => h i (List.mem_cons_of_mem _ hi))
    simp [List.mapM_cons, hv, this]

end TieTryJoinV
end Fc
