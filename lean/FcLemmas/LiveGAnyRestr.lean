/-
  FcLemmas/LiveGAnyRestr.lean — the run invariants of FcLemmas/LiveGAnyInst.lean transported along
  the script restriction of FcLemmas/LiveGRestr.lean (only the scripts of the ids in `ids` are
  constrained), and the instance of the abstract argument for the real state.

  `LRW ids ins sc e`: `LGW` holds for `e` with the scripts of the ids outside `ids` emptied; every
  member is among `ids`; every id that was ever inserted is among `ins ⊇ ids`; the scripts of the ids
  outside `ins` are still the initial ones `sc` (they have never been polled).
-/
import FcLemmas.LiveGAnyInst
import FcLemmas.LiveGAnyFrame
set_option linter.unusedSimpArgs false
set_option linter.unusedVariables false

namespace Fc
namespace LiveGAny
open Mon Live Live3 G Grp C01 LiveG

structure LRW (stream keyed : Bool) (m : Mode) (n : Nat) (ids ins : List Nat) (sc : Nat → List Step)
    (e : Eng Grp) : Prop where
  w : LGW stream keyed m n (rE ids e)
  mem : ∀ k c, e.s.member k = some c → c ∈ ids
  kin : ∀ c, keyOf e.w.trace c ≠ none → c ∈ ins
  sub : ∀ c, c ∈ ids → c ∈ ins
  scr : ∀ c, c ∉ ins → e.w.scripts c = sc c

structure LRA (stream keyed : Bool) (m : Mode) (n : Nat) (ids ins : List Nat) (sc : Nat → List Step)
    (e : Eng Grp) : Prop where
  r : LRW stream keyed m n ids ins sc e
  a : LGA stream keyed m n (rE ids e)

variable {stream keyed : Bool} {m : Mode} {n : Nat} {ids ins : List Nat} {sc : Nat → List Step}

theorem lrw_memIn (e : Eng Grp) (h : LRW stream keyed m n ids ins sc e) : MemIn ids e.s := by
  intro j hj
  obtain ⟨c, hc⟩ := member_of_elig (lgw_cb _ h.w).slab j hj
  exact ⟨c, h.mem j c hc, hc⟩

theorem members_rE (e : Eng Grp) : ExecGAny.members (rE ids e) = ExecGAny.members e := rfl

theorem isWaiting_rE (e : Eng Grp) (c : Nat) (hc : c ∈ ids) :
    ExecGAny.isWaiting (rE ids e) c = ExecGAny.isWaiting e c := by
  unfold ExecGAny.isWaiting
  simp only [rE_w, rW_trace, rW_scripts_mem e.w c hc]

theorem lrw_members (e : Eng Grp) (h : LRW stream keyed m n ids ins sc e) (c : Nat)
    (hc : c ∈ ExecGAny.members e) : c ∈ ids := by
  obtain ⟨k, hk⟩ := members_mem e c hc
  exact h.mem k c hk

theorem lrw_poll (e : Eng Grp) (wid : Nat) (h : LRW stream keyed m n ids ins sc e)
    (hw : LGW stream keyed m n (rE ids (Eng.poll group e wid))) :
    LRW stream keyed m n ids ins sc (Eng.poll group e wid) := by
  obtain ⟨hM, hS⟩ := poll_frame (ids := ids) e wid (lrw_memIn e h)
  refine ⟨hw, ?_, fun c hc => h.kin c (by rwa [keyOf_poll] at hc), h.sub,
    fun c hc => by rw [hS c (fun hh => hc (h.sub c hh))]; exact h.scr c hc⟩
  intro k c hk
  have hst : (Eng.poll group e wid).s.st k = .pending :=
    ((lgw_cb _ hw).slab.stm k).mpr (by simp [hk])
  obtain ⟨c', hc', hk'⟩ := hM k hst
  rw [hk] at hk'
  cases hk'
  exact hc'

theorem lrw_fire (e : Eng Grp) (c a : Nat) (h : LRW stream keyed m n ids ins sc e) :
    LRW stream keyed m n ids ins sc (e.fire c a) :=
  ⟨by rw [← rE_fire]; exact lgw_fire _ c a h.w, h.mem,
    fun j hj => h.kin j (by simpa [keyOf_fire] using hj), h.sub,
    fun j hj => by simpa using h.scr j hj⟩

/-- the instance of the abstract argument for arbitrary scripts of the foreign ids -/
theorem prog_lra : ProgA (LRW stream keyed m n ids ins sc) (LRA stream keyed m n ids ins sc)
    (fun e => ∀ k, e.s.member k = none) (fun e => mu n (rE ids e)) (fun e => Owed (rE ids e)) where
  weak := fun e h => h.r
  lo := fun e h => h.a.lo
  poll := by
    intro e wid h
    have hp := lgw_poll (rE ids e) wid h.w
    rw [rE_poll e wid (lrw_memIn e h)] at hp
    rcases hp with ⟨h1, h2, h4⟩ | ⟨h1, h2, h3⟩
    · exact Or.inl ⟨h1, lrw_poll e wid h h2, h4⟩
    · exact Or.inr ⟨⟨lrw_poll e wid h h1.w, h1⟩, h2, h3⟩
  fire := fun e c a h =>
    ⟨lrw_fire e c a h.r, by rw [← rE_fire]; exact lga_fire _ c a h.a⟩
  mfire := fun e c a => by rw [← rE_fire]; exact mu_fire _ c a
  wfire := fun e c a h => by rw [← rE_fire]; exact owed_fire _ c a h
  waiting := by
    intro e h hlo
    obtain ⟨c, hc, hw⟩ := waiting_some (rE ids e) h.a hlo
    rw [members_rE] at hc
    exact ⟨c, hc, by rw [← isWaiting_rE e c (lrw_members e h.r c hc)]; exact hw⟩
  woke := by
    intro e c h hlo hc hw
    have := (prog_lga (stream := stream) (keyed := keyed) (m := m) (n := n)).woke (rE ids e) c h.a hlo
      (by rw [members_rE]; exact hc) (by rw [isWaiting_rE e c (lrw_members e h.r c hc)]; exact hw)
    rw [rE_fire] at this
    exact this

/-- the measure of the restricted state and the scripted steps of the members -/
theorem stepsLeft_rE' (e : Eng Grp) (h : LRW stream keyed m n ids ins sc e) :
    ExecG.stepsLeft (rE ids e) = ExecG.stepsLeft e :=
  stepsLeft_rE e h.mem

end LiveGAny
end Fc
