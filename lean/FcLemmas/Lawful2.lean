import FcLemmas.Lawful
set_option linter.unusedSimpArgs false
set_option linter.unusedVariables false
namespace Fc
open Fix
theorem allReady_upd (s : Fix) (i : Nat)
    (h : ({ s with st := upd s.st i PS.ready } : Fix).allReady = true) :
    ∀ j, j ≠ i → j < s.n → s.st j = PS.ready := by
  intro j hj hn
  simp only [Fix.allReady, List.all_eq_true, List.mem_range, decide_eq_true_eq] at h
  have := h j hn
  rwa [upd_other _ _ _ _ hj] at this

macro "fin" : tactic => `(tactic| first | rfl | (simp_all; done) | (split <;> first | rfl | (simp_all; done)))

theorem lawful_joinTuple : Lawful (joinTuple) where
  child_id := by intros; rfl
  order_lt := by
    intro s i h
    simp only [joinTuple] at h
    first
      | exact mem_rot_lt s i h
      | (simp only [List.mem_range] at h; exact h)
      | (split at h
         · exact mem_rot_lt s i h
         · simpa using h)
  n_handle := by
    intro s i r
    rcases r with _ | ⟨ok, v⟩ | v | _ | _ <;> (try cases ok) <;>
      simp only [joinTuple, Fix.keep, Fix.kill, Fix.unbuf] <;> fin
  n_start := by intro s; simp only [joinTuple, Fix.bump] <;> fin
  n_finish := by intro s; simp only [joinTuple, Fix.kill] <;> fin
  n_panic := by intros; rfl
  n_drop := by intros; rfl
  pend_elig := by intros; rfl
  pend_kop := by intros; rfl
  pend_live := by intro s i h; exact h
  mono := by
    intro s i r j hj hp he
    rcases r with _ | ⟨ok, v⟩ | v | _ | _ <;> (try cases ok) <;>
      simp_all [joinTuple, Fix.keep, Fix.kill, Fix.unbuf, Fix.misuseIfDead] <;>
      (try split) <;> simp_all
  dead_exit := by
    intro s i r h1 h2
    rcases r with _ | ⟨ok, v⟩ | v | _ | _ <;> (try cases ok) <;>
      simp_all [joinTuple, Fix.keep, Fix.kill, Fix.unbuf, Fix.misuseIfDead] <;>
      (try split) <;> simp_all
  arm := by
    intro s i r j h
    rcases r with _ | ⟨ok, v⟩ | v | _ | _ <;> (try cases ok) <;>
      simp_all [joinTuple, Fix.keep, Fix.kill, Fix.unbuf] <;> (try split at h) <;> simp_all
  armAll := by
    intro s i r h
    rcases r with _ | ⟨ok, v⟩ | v | _ | _ <;> (try cases ok) <;>
      simp_all [joinTuple, Fix.keep, Fix.kill, Fix.unbuf] <;> (try split at h) <;> simp_all <;>
      (try exact allReady_upd _ _ (by assumption))
  start_elig := by intro s j; simp only [joinTuple, Fix.bump] <;> fin
  start_live := by
    intro s h
    simp_all [joinTuple, Fix.bump, Fix.misuseIfDead]
  finish_elig := by
    intro s j h
    simp only [joinTuple, Fix.kill] at h ⊢ <;> (try split at h) <;> simp_all [Fix.misuseIfDead]
  finish_kop := by intro s; simp only [joinTuple] <;> fin
  evs_handle := by
    intro s i r e h
    rcases r with _ | ⟨ok, v⟩ | v | _ | _ <;> (try cases ok) <;>
      simp_all [joinTuple, Fix.keep, Fix.kill, Fix.unbuf, Fix.bufEvs, isOwnEv] <;>
      (try split at h) <;> simp_all [isOwnEv]
  evs_finish := by
    intro s e h
    simp only [joinTuple] at h
    (try split at h) <;> simp at h
  evs_panic := by intro s e h; simp [joinTuple, Fix.bufEvs] at h
  evs_drop := by
    intro s e h
    simp only [joinTuple, Fix.dropStates, Fix.dropAll, List.mem_append, List.mem_map] at h
    first
      | (rcases h with ⟨_, _, rfl⟩ | ⟨_, _, rfl⟩ <;> rfl)
      | (rcases h with ⟨_, _, rfl⟩; rfl)
      | (simp at h; rcases h with rfl | rfl <;> rfl)
  panic_dead := by intro s; simp [joinTuple, Fix.kill, Fix.misuseIfDead] <;> (try split) <;> simp
  drop_dead := by intro s; simp [joinTuple, Fix.kill, Fix.misuseIfDead] <;> (try split) <;> simp

theorem lawful_tryJoinSlice : Lawful (tryJoinSlice) where
  child_id := by intros; rfl
  order_lt := by
    intro s i h
    simp only [tryJoinSlice] at h
    first
      | exact mem_rot_lt s i h
      | (simp only [List.mem_range] at h; exact h)
      | (split at h
         · exact mem_rot_lt s i h
         · simpa using h)
  n_handle := by
    intro s i r
    rcases r with _ | ⟨ok, v⟩ | v | _ | _ <;> (try cases ok) <;>
      simp only [tryJoinSlice, Fix.keep, Fix.kill, Fix.unbuf] <;> fin
  n_start := by intro s; simp only [tryJoinSlice, Fix.bump] <;> fin
  n_finish := by intro s; simp only [tryJoinSlice, Fix.kill] <;> fin
  n_panic := by intros; rfl
  n_drop := by intros; rfl
  pend_elig := by intros; rfl
  pend_kop := by intros; rfl
  pend_live := by intro s i h; exact h
  mono := by
    intro s i r j hj hp he
    rcases r with _ | ⟨ok, v⟩ | v | _ | _ <;> (try cases ok) <;>
      simp_all [tryJoinSlice, Fix.keep, Fix.kill, Fix.unbuf, Fix.misuseIfDead] <;>
      (try split) <;> simp_all
  dead_exit := by
    intro s i r h1 h2
    rcases r with _ | ⟨ok, v⟩ | v | _ | _ <;> (try cases ok) <;>
      simp_all [tryJoinSlice, Fix.keep, Fix.kill, Fix.unbuf, Fix.misuseIfDead] <;>
      (try split) <;> simp_all
  arm := by
    intro s i r j h
    rcases r with _ | ⟨ok, v⟩ | v | _ | _ <;> (try cases ok) <;>
      simp_all [tryJoinSlice, Fix.keep, Fix.kill, Fix.unbuf] <;> (try split at h) <;> simp_all
  armAll := by
    intro s i r h
    rcases r with _ | ⟨ok, v⟩ | v | _ | _ <;> (try cases ok) <;>
      simp_all [tryJoinSlice, Fix.keep, Fix.kill, Fix.unbuf] <;> (try split at h) <;> simp_all <;>
      (try exact allReady_upd _ _ (by assumption))
  start_elig := by intro s j; simp only [tryJoinSlice, Fix.bump] <;> fin
  start_live := by
    intro s h
    simp_all [tryJoinSlice, Fix.bump, Fix.misuseIfDead]
  finish_elig := by
    intro s j h
    simp only [tryJoinSlice, Fix.kill] at h ⊢ <;> (try split at h) <;> simp_all [Fix.misuseIfDead]
  finish_kop := by intro s; simp only [tryJoinSlice] <;> fin
  evs_handle := by
    intro s i r e h
    rcases r with _ | ⟨ok, v⟩ | v | _ | _ <;> (try cases ok) <;>
      simp_all [tryJoinSlice, Fix.keep, Fix.kill, Fix.unbuf, Fix.bufEvs, isOwnEv] <;>
      (try split at h) <;> simp_all [isOwnEv]
  evs_finish := by
    intro s e h
    simp only [tryJoinSlice] at h
    (try split at h) <;> simp at h
  evs_panic := by intro s e h; simp [tryJoinSlice, Fix.bufEvs] at h
  evs_drop := by
    intro s e h
    simp only [tryJoinSlice, Fix.dropStates, Fix.dropAll, List.mem_append, List.mem_map] at h
    first
      | (rcases h with ⟨_, _, rfl⟩ | ⟨_, _, rfl⟩ <;> rfl)
      | (rcases h with ⟨_, _, rfl⟩; rfl)
      | (simp at h; rcases h with rfl | rfl <;> rfl)
  panic_dead := by intro s; simp [tryJoinSlice, Fix.kill, Fix.misuseIfDead] <;> (try split) <;> simp
  drop_dead := by intro s; simp [tryJoinSlice, Fix.kill, Fix.misuseIfDead] <;> (try split) <;> simp

theorem lawful_tryJoinTuple : Lawful (tryJoinTuple) where
  child_id := by intros; rfl
  order_lt := by
    intro s i h
    simp only [tryJoinTuple] at h
    first
      | exact mem_rot_lt s i h
      | (simp only [List.mem_range] at h; exact h)
      | (split at h
         · exact mem_rot_lt s i h
         · simpa using h)
  n_handle := by
    intro s i r
    rcases r with _ | ⟨ok, v⟩ | v | _ | _ <;> (try cases ok) <;>
      simp only [tryJoinTuple, Fix.keep, Fix.kill, Fix.unbuf] <;> fin
  n_start := by intro s; simp only [tryJoinTuple, Fix.bump] <;> fin
  n_finish := by intro s; simp only [tryJoinTuple, Fix.kill] <;> fin
  n_panic := by intros; rfl
  n_drop := by intros; rfl
  pend_elig := by intros; rfl
  pend_kop := by intros; rfl
  pend_live := by intro s i h; exact h
  mono := by
    intro s i r j hj hp he
    rcases r with _ | ⟨ok, v⟩ | v | _ | _ <;> (try cases ok) <;>
      simp_all [tryJoinTuple, Fix.keep, Fix.kill, Fix.unbuf, Fix.misuseIfDead] <;>
      (try split) <;> simp_all
  dead_exit := by
    intro s i r h1 h2
    rcases r with _ | ⟨ok, v⟩ | v | _ | _ <;> (try cases ok) <;>
      simp_all [tryJoinTuple, Fix.keep, Fix.kill, Fix.unbuf, Fix.misuseIfDead] <;>
      (try split) <;> simp_all
  arm := by
    intro s i r j h
    rcases r with _ | ⟨ok, v⟩ | v | _ | _ <;> (try cases ok) <;>
      simp_all [tryJoinTuple, Fix.keep, Fix.kill, Fix.unbuf] <;> (try split at h) <;> simp_all
  armAll := by
    intro s i r h
    rcases r with _ | ⟨ok, v⟩ | v | _ | _ <;> (try cases ok) <;>
      simp_all [tryJoinTuple, Fix.keep, Fix.kill, Fix.unbuf] <;> (try split at h) <;> simp_all <;>
      (try exact allReady_upd _ _ (by assumption))
  start_elig := by intro s j; simp only [tryJoinTuple, Fix.bump] <;> fin
  start_live := by
    intro s h
    simp_all [tryJoinTuple, Fix.bump, Fix.misuseIfDead]
  finish_elig := by
    intro s j h
    simp only [tryJoinTuple, Fix.kill] at h ⊢ <;> (try split at h) <;> simp_all [Fix.misuseIfDead]
  finish_kop := by intro s; simp only [tryJoinTuple] <;> fin
  evs_handle := by
    intro s i r e h
    rcases r with _ | ⟨ok, v⟩ | v | _ | _ <;> (try cases ok) <;>
      simp_all [tryJoinTuple, Fix.keep, Fix.kill, Fix.unbuf, Fix.bufEvs, isOwnEv] <;>
      (try split at h) <;> simp_all [isOwnEv]
  evs_finish := by
    intro s e h
    simp only [tryJoinTuple] at h
    (try split at h) <;> simp at h
  evs_panic := by intro s e h; simp [tryJoinTuple, Fix.bufEvs] at h
  evs_drop := by
    intro s e h
    simp only [tryJoinTuple, Fix.dropStates, Fix.dropAll, List.mem_append, List.mem_map] at h
    first
      | (rcases h with ⟨_, _, rfl⟩ | ⟨_, _, rfl⟩ <;> rfl)
      | (rcases h with ⟨_, _, rfl⟩; rfl)
      | (simp at h; rcases h with rfl | rfl <;> rfl)
  panic_dead := by intro s; simp [tryJoinTuple, Fix.kill, Fix.misuseIfDead] <;> (try split) <;> simp
  drop_dead := by intro s; simp [tryJoinTuple, Fix.kill, Fix.misuseIfDead] <;> (try split) <;> simp

theorem lawful_race : Lawful (race) where
  child_id := by intros; rfl
  order_lt := by
    intro s i h
    simp only [race] at h
    first
      | exact mem_rot_lt s i h
      | (simp only [List.mem_range] at h; exact h)
      | (split at h
         · exact mem_rot_lt s i h
         · simpa using h)
  n_handle := by
    intro s i r
    rcases r with _ | ⟨ok, v⟩ | v | _ | _ <;> (try cases ok) <;>
      simp only [race, Fix.keep, Fix.kill, Fix.unbuf] <;> fin
  n_start := by intro s; simp only [race, Fix.bump] <;> fin
  n_finish := by intro s; simp only [race, Fix.kill] <;> fin
  n_panic := by intros; rfl
  n_drop := by intros; rfl
  pend_elig := by intros; rfl
  pend_kop := by intros; rfl
  pend_live := by intro s i h; exact h
  mono := by
    intro s i r j hj hp he
    rcases r with _ | ⟨ok, v⟩ | v | _ | _ <;> (try cases ok) <;>
      simp_all [race, Fix.keep, Fix.kill, Fix.unbuf, Fix.misuseIfDead] <;>
      (try split) <;> simp_all
  dead_exit := by
    intro s i r h1 h2
    rcases r with _ | ⟨ok, v⟩ | v | _ | _ <;> (try cases ok) <;>
      simp_all [race, Fix.keep, Fix.kill, Fix.unbuf, Fix.misuseIfDead] <;>
      (try split) <;> simp_all
  arm := by
    intro s i r j h
    rcases r with _ | ⟨ok, v⟩ | v | _ | _ <;> (try cases ok) <;>
      simp_all [race, Fix.keep, Fix.kill, Fix.unbuf] <;> (try split at h) <;> simp_all
  armAll := by
    intro s i r h
    rcases r with _ | ⟨ok, v⟩ | v | _ | _ <;> (try cases ok) <;>
      simp_all [race, Fix.keep, Fix.kill, Fix.unbuf] <;> (try split at h) <;> simp_all <;>
      (try exact allReady_upd _ _ (by assumption))
  start_elig := by intro s j; simp only [race, Fix.bump] <;> fin
  start_live := by
    intro s h
    simp_all [race, Fix.bump, Fix.misuseIfDead]
  finish_elig := by
    intro s j h
    simp only [race, Fix.kill] at h ⊢ <;> (try split at h) <;> simp_all [Fix.misuseIfDead]
  finish_kop := by intro s; simp only [race] <;> fin
  evs_handle := by
    intro s i r e h
    rcases r with _ | ⟨ok, v⟩ | v | _ | _ <;> (try cases ok) <;>
      simp_all [race, Fix.keep, Fix.kill, Fix.unbuf, Fix.bufEvs, isOwnEv] <;>
      (try split at h) <;> simp_all [isOwnEv]
  evs_finish := by
    intro s e h
    simp only [race] at h
    (try split at h) <;> simp at h
  evs_panic := by intro s e h; simp [race, Fix.bufEvs] at h
  evs_drop := by
    intro s e h
    simp only [race, Fix.dropStates, Fix.dropAll, List.mem_append, List.mem_map] at h
    first
      | (rcases h with ⟨_, _, rfl⟩ | ⟨_, _, rfl⟩ <;> rfl)
      | (rcases h with ⟨_, _, rfl⟩; rfl)
      | (simp at h; rcases h with rfl | rfl <;> rfl)
  panic_dead := by intro s; simp [race, Fix.kill, Fix.misuseIfDead] <;> (try split) <;> simp
  drop_dead := by intro s; simp [race, Fix.kill, Fix.misuseIfDead] <;> (try split) <;> simp

theorem lawful_merge : Lawful (merge) where
  child_id := by intros; rfl
  order_lt := by
    intro s i h
    simp only [merge] at h
    first
      | exact mem_rot_lt s i h
      | (simp only [List.mem_range] at h; exact h)
      | (split at h
         · exact mem_rot_lt s i h
         · simpa using h)
  n_handle := by
    intro s i r
    rcases r with _ | ⟨ok, v⟩ | v | _ | _ <;> (try cases ok) <;>
      simp only [merge, Fix.keep, Fix.kill, Fix.unbuf] <;> fin
  n_start := by intro s; simp only [merge, Fix.bump] <;> fin
  n_finish := by intro s; simp only [merge, Fix.kill] <;> fin
  n_panic := by intros; rfl
  n_drop := by intros; rfl
  pend_elig := by intros; rfl
  pend_kop := by intros; rfl
  pend_live := by intro s i h; exact h
  mono := by
    intro s i r j hj hp he
    rcases r with _ | ⟨ok, v⟩ | v | _ | _ <;> (try cases ok) <;>
      simp_all [merge, Fix.keep, Fix.kill, Fix.unbuf, Fix.misuseIfDead] <;>
      (try split) <;> simp_all
  dead_exit := by
    intro s i r h1 h2
    rcases r with _ | ⟨ok, v⟩ | v | _ | _ <;> (try cases ok) <;>
      simp_all [merge, Fix.keep, Fix.kill, Fix.unbuf, Fix.misuseIfDead] <;>
      (try split) <;> simp_all
  arm := by
    intro s i r j h
    rcases r with _ | ⟨ok, v⟩ | v | _ | _ <;> (try cases ok) <;>
      simp_all [merge, Fix.keep, Fix.kill, Fix.unbuf] <;> (try split at h) <;> simp_all
  armAll := by
    intro s i r h
    rcases r with _ | ⟨ok, v⟩ | v | _ | _ <;> (try cases ok) <;>
      simp_all [merge, Fix.keep, Fix.kill, Fix.unbuf] <;> (try split at h) <;> simp_all <;>
      (try exact allReady_upd _ _ (by assumption))
  start_elig := by intro s j; simp only [merge, Fix.bump] <;> fin
  start_live := by
    intro s h
    simp_all [merge, Fix.bump, Fix.misuseIfDead]
  finish_elig := by
    intro s j h
    simp only [merge, Fix.kill] at h ⊢ <;> (try split at h) <;> simp_all [Fix.misuseIfDead]
  finish_kop := by intro s; simp only [merge] <;> fin
  evs_handle := by
    intro s i r e h
    rcases r with _ | ⟨ok, v⟩ | v | _ | _ <;> (try cases ok) <;>
      simp_all [merge, Fix.keep, Fix.kill, Fix.unbuf, Fix.bufEvs, isOwnEv] <;>
      (try split at h) <;> simp_all [isOwnEv]
  evs_finish := by
    intro s e h
    simp only [merge] at h
    (try split at h) <;> simp at h
  evs_panic := by intro s e h; simp [merge, Fix.bufEvs] at h
  evs_drop := by
    intro s e h
    simp only [merge, Fix.dropStates, Fix.dropAll, List.mem_append, List.mem_map] at h
    first
      | (rcases h with ⟨_, _, rfl⟩ | ⟨_, _, rfl⟩ <;> rfl)
      | (rcases h with ⟨_, _, rfl⟩; rfl)
      | (simp at h; rcases h with rfl | rfl <;> rfl)
  panic_dead := by intro s; simp [merge, Fix.kill, Fix.misuseIfDead] <;> (try split) <;> simp
  drop_dead := by intro s; simp [merge, Fix.kill, Fix.misuseIfDead] <;> (try split) <;> simp

theorem lawful_zip : Lawful (zip) where
  child_id := by intros; rfl
  order_lt := by
    intro s i h
    simp only [zip] at h
    first
      | exact mem_rot_lt s i h
      | (simp only [List.mem_range] at h; exact h)
      | (split at h
         · exact mem_rot_lt s i h
         · simpa using h)
  n_handle := by
    intro s i r
    rcases r with _ | ⟨ok, v⟩ | v | _ | _ <;> (try cases ok) <;>
      simp only [zip, Fix.keep, Fix.kill, Fix.unbuf] <;> fin
  n_start := by intro s; simp only [zip, Fix.bump] <;> fin
  n_finish := by intro s; simp only [zip, Fix.kill] <;> fin
  n_panic := by intros; rfl
  n_drop := by intros; rfl
  pend_elig := by intros; rfl
  pend_kop := by intros; rfl
  pend_live := by intro s i h; exact h
  mono := by
    intro s i r j hj hp he
    rcases r with _ | ⟨ok, v⟩ | v | _ | _ <;> (try cases ok) <;>
      simp_all [zip, Fix.keep, Fix.kill, Fix.unbuf, Fix.misuseIfDead] <;>
      (try split) <;> simp_all
  dead_exit := by
    intro s i r h1 h2
    rcases r with _ | ⟨ok, v⟩ | v | _ | _ <;> (try cases ok) <;>
      simp_all [zip, Fix.keep, Fix.kill, Fix.unbuf, Fix.misuseIfDead] <;>
      (try split) <;> simp_all
  arm := by
    intro s i r j h
    rcases r with _ | ⟨ok, v⟩ | v | _ | _ <;> (try cases ok) <;>
      simp_all [zip, Fix.keep, Fix.kill, Fix.unbuf] <;> (try split at h) <;> simp_all
  armAll := by
    intro s i r h
    rcases r with _ | ⟨ok, v⟩ | v | _ | _ <;> (try cases ok) <;>
      simp_all [zip, Fix.keep, Fix.kill, Fix.unbuf] <;> (try split at h) <;> simp_all <;>
      (try exact allReady_upd _ _ (by assumption))
  start_elig := by intro s j; simp only [zip, Fix.bump] <;> fin
  start_live := by
    intro s h
    simp_all [zip, Fix.bump, Fix.misuseIfDead]
  finish_elig := by
    intro s j h
    simp only [zip, Fix.kill] at h ⊢ <;> (try split at h) <;> simp_all [Fix.misuseIfDead]
  finish_kop := by intro s; simp only [zip] <;> fin
  evs_handle := by
    intro s i r e h
    rcases r with _ | ⟨ok, v⟩ | v | _ | _ <;> (try cases ok) <;>
      simp_all [zip, Fix.keep, Fix.kill, Fix.unbuf, Fix.bufEvs, isOwnEv] <;>
      (try split at h) <;> simp_all [isOwnEv]
  evs_finish := by
    intro s e h
    simp only [zip] at h
    (try split at h) <;> simp at h
  evs_panic := by intro s e h; simp [zip, Fix.bufEvs] at h
  evs_drop := by
    intro s e h
    simp only [zip, Fix.dropStates, Fix.dropAll, List.mem_append, List.mem_map] at h
    first
      | (rcases h with ⟨_, _, rfl⟩ | ⟨_, _, rfl⟩ <;> rfl)
      | (rcases h with ⟨_, _, rfl⟩; rfl)
      | (simp at h; rcases h with rfl | rfl <;> rfl)
  panic_dead := by intro s; simp [zip, Fix.kill, Fix.misuseIfDead] <;> (try split) <;> simp
  drop_dead := by intro s; simp [zip, Fix.kill, Fix.misuseIfDead] <;> (try split) <;> simp

theorem lawful_raceOkArr : Lawful (raceOk false false) where
  child_id := by intros; rfl
  order_lt := by
    intro s i h
    simp only [raceOk, Bool.false_eq_true, if_false, if_true] at h
    first
      | exact mem_rot_lt s i h
      | (simp only [List.mem_range] at h; exact h)
      | (split at h
         · exact mem_rot_lt s i h
         · simpa using h)
  n_handle := by
    intro s i r
    rcases r with _ | ⟨ok, v⟩ | v | _ | _ <;> (try cases ok) <;>
      simp only [raceOk, Bool.false_eq_true, if_false, if_true, Fix.keep, Fix.kill, Fix.unbuf] <;> fin
  n_start := by intro s; simp only [raceOk, Bool.false_eq_true, if_false, if_true, Fix.bump] <;> fin
  n_finish := by intro s; simp only [raceOk, Bool.false_eq_true, if_false, if_true, Fix.kill] <;> fin
  n_panic := by intros; rfl
  n_drop := by intros; rfl
  pend_elig := by intros; rfl
  pend_kop := by intros; rfl
  pend_live := by intro s i h; exact h
  mono := by
    intro s i r j hj hp he
    rcases r with _ | ⟨ok, v⟩ | v | _ | _ <;> (try cases ok) <;>
      simp_all [raceOk, Bool.false_eq_true, if_false, if_true, Fix.keep, Fix.kill, Fix.unbuf, Fix.misuseIfDead] <;>
      (try split) <;> simp_all
  dead_exit := by
    intro s i r h1 h2
    rcases r with _ | ⟨ok, v⟩ | v | _ | _ <;> (try cases ok) <;>
      simp_all [raceOk, Bool.false_eq_true, if_false, if_true, Fix.keep, Fix.kill, Fix.unbuf, Fix.misuseIfDead] <;>
      (try split) <;> simp_all
  arm := by
    intro s i r j h
    rcases r with _ | ⟨ok, v⟩ | v | _ | _ <;> (try cases ok) <;>
      simp_all [raceOk, Bool.false_eq_true, if_false, if_true, Fix.keep, Fix.kill, Fix.unbuf] <;> (try split at h) <;> simp_all
  armAll := by
    intro s i r h
    rcases r with _ | ⟨ok, v⟩ | v | _ | _ <;> (try cases ok) <;>
      simp_all [raceOk, Bool.false_eq_true, if_false, if_true, Fix.keep, Fix.kill, Fix.unbuf] <;> (try split at h) <;> simp_all <;>
      (try exact allReady_upd _ _ (by assumption))
  start_elig := by intro s j; simp only [raceOk, Bool.false_eq_true, if_false, if_true, Fix.bump] <;> fin
  start_live := by
    intro s h
    simp_all [raceOk, Bool.false_eq_true, if_false, if_true, Fix.bump, Fix.misuseIfDead]
  finish_elig := by
    intro s j h
    simp only [raceOk, Bool.false_eq_true, if_false, if_true, Fix.kill] at h ⊢ <;> (try split at h) <;> simp_all [Fix.misuseIfDead]
  finish_kop := by intro s; simp only [raceOk, Bool.false_eq_true, if_false, if_true] <;> fin
  evs_handle := by
    intro s i r e h
    rcases r with _ | ⟨ok, v⟩ | v | _ | _ <;> (try cases ok) <;>
      simp_all [raceOk, Bool.false_eq_true, if_false, if_true, Fix.keep, Fix.kill, Fix.unbuf, Fix.bufEvs, isOwnEv] <;>
      (try split at h) <;> simp_all [isOwnEv]
  evs_finish := by
    intro s e h
    simp only [raceOk, Bool.false_eq_true, if_false, if_true] at h
    (try split at h) <;> simp at h
  evs_panic := by intro s e h; simp [raceOk, Bool.false_eq_true, if_false, if_true, Fix.bufEvs] at h
  evs_drop := by
    intro s e h
    simp only [raceOk, Bool.false_eq_true, if_false, if_true, Fix.dropStates, Fix.dropAll, List.mem_append, List.mem_map] at h
    first
      | (rcases h with ⟨_, _, rfl⟩ | ⟨_, _, rfl⟩ <;> rfl)
      | (rcases h with ⟨_, _, rfl⟩; rfl)
      | (simp at h; rcases h with rfl | rfl <;> rfl)
  panic_dead := by intro s; simp [raceOk, Bool.false_eq_true, if_false, if_true, Fix.kill, Fix.misuseIfDead] <;> (try split) <;> simp
  drop_dead := by intro s; simp [raceOk, Bool.false_eq_true, if_false, if_true, Fix.kill, Fix.misuseIfDead] <;> (try split) <;> simp

theorem lawful_raceOkVec : Lawful (raceOk false true) where
  child_id := by intros; rfl
  order_lt := by
    intro s i h
    simp only [raceOk, Bool.false_eq_true, if_false, if_true] at h
    first
      | exact mem_rot_lt s i h
      | (simp only [List.mem_range] at h; exact h)
      | (split at h
         · exact mem_rot_lt s i h
         · simpa using h)
  n_handle := by
    intro s i r
    rcases r with _ | ⟨ok, v⟩ | v | _ | _ <;> (try cases ok) <;>
      simp only [raceOk, Bool.false_eq_true, if_false, if_true, Fix.keep, Fix.kill, Fix.unbuf] <;> fin
  n_start := by intro s; simp only [raceOk, Bool.false_eq_true, if_false, if_true, Fix.bump] <;> fin
  n_finish := by intro s; simp only [raceOk, Bool.false_eq_true, if_false, if_true, Fix.kill] <;> fin
  n_panic := by intros; rfl
  n_drop := by intros; rfl
  pend_elig := by intros; rfl
  pend_kop := by intros; rfl
  pend_live := by intro s i h; exact h
  mono := by
    intro s i r j hj hp he
    rcases r with _ | ⟨ok, v⟩ | v | _ | _ <;> (try cases ok) <;>
      simp_all [raceOk, Bool.false_eq_true, if_false, if_true, Fix.keep, Fix.kill, Fix.unbuf, Fix.misuseIfDead] <;>
      (try split) <;> simp_all
  dead_exit := by
    intro s i r h1 h2
    rcases r with _ | ⟨ok, v⟩ | v | _ | _ <;> (try cases ok) <;>
      simp_all [raceOk, Bool.false_eq_true, if_false, if_true, Fix.keep, Fix.kill, Fix.unbuf, Fix.misuseIfDead] <;>
      (try split) <;> simp_all
  arm := by
    intro s i r j h
    rcases r with _ | ⟨ok, v⟩ | v | _ | _ <;> (try cases ok) <;>
      simp_all [raceOk, Bool.false_eq_true, if_false, if_true, Fix.keep, Fix.kill, Fix.unbuf] <;> (try split at h) <;> simp_all
  armAll := by
    intro s i r h
    rcases r with _ | ⟨ok, v⟩ | v | _ | _ <;> (try cases ok) <;>
      simp_all [raceOk, Bool.false_eq_true, if_false, if_true, Fix.keep, Fix.kill, Fix.unbuf] <;> (try split at h) <;> simp_all <;>
      (try exact allReady_upd _ _ (by assumption))
  start_elig := by intro s j; simp only [raceOk, Bool.false_eq_true, if_false, if_true, Fix.bump] <;> fin
  start_live := by
    intro s h
    simp_all [raceOk, Bool.false_eq_true, if_false, if_true, Fix.bump, Fix.misuseIfDead]
  finish_elig := by
    intro s j h
    simp only [raceOk, Bool.false_eq_true, if_false, if_true, Fix.kill] at h ⊢ <;> (try split at h) <;> simp_all [Fix.misuseIfDead]
  finish_kop := by intro s; simp only [raceOk, Bool.false_eq_true, if_false, if_true] <;> fin
  evs_handle := by
    intro s i r e h
    rcases r with _ | ⟨ok, v⟩ | v | _ | _ <;> (try cases ok) <;>
      simp_all [raceOk, Bool.false_eq_true, if_false, if_true, Fix.keep, Fix.kill, Fix.unbuf, Fix.bufEvs, isOwnEv] <;>
      (try split at h) <;> simp_all [isOwnEv]
  evs_finish := by
    intro s e h
    simp only [raceOk, Bool.false_eq_true, if_false, if_true] at h
    (try split at h) <;> simp at h
  evs_panic := by intro s e h; simp [raceOk, Bool.false_eq_true, if_false, if_true, Fix.bufEvs] at h
  evs_drop := by
    intro s e h
    simp only [raceOk, Bool.false_eq_true, if_false, if_true, Fix.dropStates, Fix.dropAll, List.mem_append, List.mem_map] at h
    first
      | (rcases h with ⟨_, _, rfl⟩ | ⟨_, _, rfl⟩ <;> rfl)
      | (rcases h with ⟨_, _, rfl⟩; rfl)
      | (simp at h; rcases h with rfl | rfl <;> rfl)
  panic_dead := by intro s; simp [raceOk, Bool.false_eq_true, if_false, if_true, Fix.kill, Fix.misuseIfDead] <;> (try split) <;> simp
  drop_dead := by intro s; simp [raceOk, Bool.false_eq_true, if_false, if_true, Fix.kill, Fix.misuseIfDead] <;> (try split) <;> simp

theorem lawful_raceOkTup : Lawful (raceOk true false) where
  child_id := by intros; rfl
  order_lt := by
    intro s i h
    simp only [raceOk, Bool.false_eq_true, if_false, if_true] at h
    first
      | exact mem_rot_lt s i h
      | (simp only [List.mem_range] at h; exact h)
      | (split at h
         · exact mem_rot_lt s i h
         · simpa using h)
  n_handle := by
    intro s i r
    rcases r with _ | ⟨ok, v⟩ | v | _ | _ <;> (try cases ok) <;>
      simp only [raceOk, Bool.false_eq_true, if_false, if_true, Fix.keep, Fix.kill, Fix.unbuf] <;> fin
  n_start := by intro s; simp only [raceOk, Bool.false_eq_true, if_false, if_true, Fix.bump] <;> fin
  n_finish := by intro s; simp only [raceOk, Bool.false_eq_true, if_false, if_true, Fix.kill] <;> fin
  n_panic := by intros; rfl
  n_drop := by intros; rfl
  pend_elig := by intros; rfl
  pend_kop := by intros; rfl
  pend_live := by intro s i h; exact h
  mono := by
    intro s i r j hj hp he
    rcases r with _ | ⟨ok, v⟩ | v | _ | _ <;> (try cases ok) <;>
      simp_all [raceOk, Bool.false_eq_true, if_false, if_true, Fix.keep, Fix.kill, Fix.unbuf, Fix.misuseIfDead] <;>
      (try split) <;> simp_all
  dead_exit := by
    intro s i r h1 h2
    rcases r with _ | ⟨ok, v⟩ | v | _ | _ <;> (try cases ok) <;>
      simp_all [raceOk, Bool.false_eq_true, if_false, if_true, Fix.keep, Fix.kill, Fix.unbuf, Fix.misuseIfDead] <;>
      (try split) <;> simp_all
  arm := by
    intro s i r j h
    rcases r with _ | ⟨ok, v⟩ | v | _ | _ <;> (try cases ok) <;>
      simp_all [raceOk, Bool.false_eq_true, if_false, if_true, Fix.keep, Fix.kill, Fix.unbuf] <;> (try split at h) <;> simp_all
  armAll := by
    intro s i r h
    rcases r with _ | ⟨ok, v⟩ | v | _ | _ <;> (try cases ok) <;>
      simp_all [raceOk, Bool.false_eq_true, if_false, if_true, Fix.keep, Fix.kill, Fix.unbuf] <;> (try split at h) <;> simp_all <;>
      (try exact allReady_upd _ _ (by assumption))
  start_elig := by intro s j; simp only [raceOk, Bool.false_eq_true, if_false, if_true, Fix.bump] <;> fin
  start_live := by
    intro s h
    simp_all [raceOk, Bool.false_eq_true, if_false, if_true, Fix.bump, Fix.misuseIfDead]
  finish_elig := by
    intro s j h
    simp only [raceOk, Bool.false_eq_true, if_false, if_true, Fix.kill] at h ⊢ <;> (try split at h) <;> simp_all [Fix.misuseIfDead]
  finish_kop := by intro s; simp only [raceOk, Bool.false_eq_true, if_false, if_true] <;> fin
  evs_handle := by
    intro s i r e h
    rcases r with _ | ⟨ok, v⟩ | v | _ | _ <;> (try cases ok) <;>
      simp_all [raceOk, Bool.false_eq_true, if_false, if_true, Fix.keep, Fix.kill, Fix.unbuf, Fix.bufEvs, isOwnEv] <;>
      (try split at h) <;> simp_all [isOwnEv]
  evs_finish := by
    intro s e h
    simp only [raceOk, Bool.false_eq_true, if_false, if_true] at h
    (try split at h) <;> simp at h
  evs_panic := by intro s e h; simp [raceOk, Bool.false_eq_true, if_false, if_true, Fix.bufEvs] at h
  evs_drop := by
    intro s e h
    simp only [raceOk, Bool.false_eq_true, if_false, if_true, Fix.dropStates, Fix.dropAll, List.mem_append, List.mem_map] at h
    first
      | (rcases h with ⟨_, _, rfl⟩ | ⟨_, _, rfl⟩ <;> rfl)
      | (rcases h with ⟨_, _, rfl⟩; rfl)
      | (simp at h; rcases h with rfl | rfl <;> rfl)
  panic_dead := by intro s; simp [raceOk, Bool.false_eq_true, if_false, if_true, Fix.kill, Fix.misuseIfDead] <;> (try split) <;> simp
  drop_dead := by intro s; simp [raceOk, Bool.false_eq_true, if_false, if_true, Fix.kill, Fix.misuseIfDead] <;> (try split) <;> simp

theorem lawful_chain : Lawful (chain) where
  child_id := by intros; rfl
  order_lt := by
    intro s i h
    simp only [chain, List.mem_range'_1] at h
    omega
  n_handle := by
    intro s i r
    rcases r with _ | ⟨ok, v⟩ | v | _ | _ <;> (try cases ok) <;>
      simp only [chain, Fix.keep, Fix.kill, Fix.unbuf] <;> fin
  n_start := by intro s; simp only [chain, Fix.bump] <;> fin
  n_finish := by intro s; simp only [chain, Fix.kill] <;> fin
  n_panic := by intros; rfl
  n_drop := by intros; rfl
  pend_elig := by intros; rfl
  pend_kop := by intros; rfl
  pend_live := by intro s i h; exact h
  mono := by
    intro s i r j hj hp he
    rcases r with _ | ⟨ok, v⟩ | v | _ | _ <;> (try cases ok) <;>
      simp_all [chain, Fix.keep, Fix.kill, Fix.unbuf, Fix.misuseIfDead] <;>
      (try split) <;> simp_all
  dead_exit := by
    intro s i r h1 h2
    rcases r with _ | ⟨ok, v⟩ | v | _ | _ <;> (try cases ok) <;>
      simp_all [chain, Fix.keep, Fix.kill, Fix.unbuf, Fix.misuseIfDead] <;>
      (try split) <;> simp_all
  arm := by
    intro s i r j h
    rcases r with _ | ⟨ok, v⟩ | v | _ | _ <;> (try cases ok) <;>
      simp_all [chain, Fix.keep, Fix.kill, Fix.unbuf] <;> (try split at h) <;> simp_all
  armAll := by
    intro s i r h
    rcases r with _ | ⟨ok, v⟩ | v | _ | _ <;> (try cases ok) <;>
      simp_all [chain, Fix.keep, Fix.kill, Fix.unbuf] <;> (try split at h) <;> simp_all <;>
      (try exact allReady_upd _ _ (by assumption))
  start_elig := by intro s j; simp only [chain, Fix.bump] <;> fin
  start_live := by
    intro s h
    simp_all [chain, Fix.bump, Fix.misuseIfDead]
  finish_elig := by
    intro s j h
    simp only [chain, Fix.kill] at h ⊢ <;> (try split at h) <;> simp_all [Fix.misuseIfDead]
  finish_kop := by intro s; simp only [chain] <;> fin
  evs_handle := by
    intro s i r e h
    rcases r with _ | ⟨ok, v⟩ | v | _ | _ <;> (try cases ok) <;>
      simp_all [chain, Fix.keep, Fix.kill, Fix.unbuf, Fix.bufEvs, isOwnEv] <;>
      (try split at h) <;> simp_all [isOwnEv]
  evs_finish := by
    intro s e h
    simp only [chain] at h
    (try split at h) <;> simp at h
  evs_panic := by intro s e h; simp only [chain, Fix.bufEvs] at h; (try split at h) <;> simp_all [isOwnEv]
  evs_drop := by
    intro s e h
    simp only [chain, Fix.dropStates, Fix.dropAll, List.mem_append, List.mem_map] at h
    first
      | (rcases h with ⟨_, _, rfl⟩ | ⟨_, _, rfl⟩ <;> rfl)
      | (rcases h with ⟨_, _, rfl⟩; rfl)
      | (simp at h; rcases h with rfl | rfl <;> rfl)
  panic_dead := by intro s; simp [chain, Fix.kill, Fix.misuseIfDead] <;> (try split) <;> simp
  drop_dead := by intro s; simp [chain, Fix.kill, Fix.misuseIfDead] <;> (try split) <;> simp

theorem lawful_waitUntilF : Lawful (waitUntilF) where
  child_id := by intros; rfl
  order_lt := by
    intro s i h
    simp only [waitUntilF, List.mem_filter, decide_eq_true_eq] at h
    exact h.2
  n_handle := by
    intro s i r
    rcases r with _ | ⟨ok, v⟩ | v | _ | _ <;> (try cases ok) <;>
      simp only [waitUntilF, Fix.keep, Fix.kill, Fix.unbuf] <;> fin
  n_start := by intro s; simp only [waitUntilF, Fix.bump] <;> fin
  n_finish := by intro s; simp only [waitUntilF, Fix.kill] <;> fin
  n_panic := by intros; rfl
  n_drop := by intros; rfl
  pend_elig := by intros; rfl
  pend_kop := by intros; rfl
  pend_live := by intro s i h; exact h
  mono := by
    intro s i r j hj hp he
    rcases r with _ | ⟨ok, v⟩ | v | _ | _ <;> (try cases ok) <;>
      simp_all [waitUntilF, Fix.keep, Fix.kill, Fix.unbuf, Fix.misuseIfDead] <;>
      (try split) <;> simp_all
  dead_exit := by
    intro s i r h1 h2
    rcases r with _ | ⟨ok, v⟩ | v | _ | _ <;> (try cases ok) <;>
      simp_all [waitUntilF, Fix.keep, Fix.kill, Fix.unbuf, Fix.misuseIfDead] <;>
      (try split) <;> simp_all
  arm := by
    intro s i r j h
    rcases r with _ | ⟨ok, v⟩ | v | _ | _ <;> (try cases ok) <;>
      simp_all [waitUntilF, Fix.keep, Fix.kill, Fix.unbuf] <;> (try split at h) <;> simp_all
  armAll := by
    intro s i r h
    rcases r with _ | ⟨ok, v⟩ | v | _ | _ <;> (try cases ok) <;>
      simp_all [waitUntilF, Fix.keep, Fix.kill, Fix.unbuf] <;> (try split at h) <;> simp_all <;>
      (try exact allReady_upd _ _ (by assumption))
  start_elig := by intro s j; simp only [waitUntilF, Fix.bump] <;> fin
  start_live := by
    intro s h
    simp_all [waitUntilF, Fix.bump, Fix.misuseIfDead]
  finish_elig := by
    intro s j h
    simp only [waitUntilF, Fix.kill] at h ⊢ <;> (try split at h) <;> simp_all [Fix.misuseIfDead]
  finish_kop := by intro s; simp only [waitUntilF] <;> fin
  evs_handle := by
    intro s i r e h
    rcases r with _ | ⟨ok, v⟩ | v | _ | _ <;> (try cases ok) <;>
      simp_all [waitUntilF, Fix.keep, Fix.kill, Fix.unbuf, Fix.bufEvs, isOwnEv] <;>
      (try split at h) <;> simp_all [isOwnEv]
  evs_finish := by
    intro s e h
    simp only [waitUntilF] at h
    (try split at h) <;> simp at h
  evs_panic := by intro s e h; simp only [waitUntilF, Fix.bufEvs] at h; (try split at h) <;> simp_all [isOwnEv]
  evs_drop := by
    intro s e h
    simp only [waitUntilF, Fix.dropStates, Fix.dropAll, List.mem_append, List.mem_map] at h
    first
      | (rcases h with ⟨_, _, rfl⟩ | ⟨_, _, rfl⟩ <;> rfl)
      | (rcases h with ⟨_, _, rfl⟩; rfl)
      | (simp at h; rcases h with rfl | rfl <;> rfl)
  panic_dead := by intro s; simp [waitUntilF, Fix.kill, Fix.misuseIfDead] <;> (try split) <;> simp
  drop_dead := by intro s; simp [waitUntilF, Fix.kill, Fix.misuseIfDead] <;> (try split) <;> simp

theorem lawful_waitUntilS : Lawful (waitUntilS) where
  child_id := by intros; rfl
  order_lt := by
    intro s i h
    simp only [waitUntilS, List.mem_filter, decide_eq_true_eq] at h
    exact h.2
  n_handle := by
    intro s i r
    rcases r with _ | ⟨ok, v⟩ | v | _ | _ <;> (try cases ok) <;>
      simp only [waitUntilS, Fix.keep, Fix.kill, Fix.unbuf] <;> fin
  n_start := by intro s; simp only [waitUntilS, Fix.bump] <;> fin
  n_finish := by intro s; simp only [waitUntilS, Fix.kill] <;> fin
  n_panic := by intros; rfl
  n_drop := by intros; rfl
  pend_elig := by intros; rfl
  pend_kop := by intros; rfl
  pend_live := by intro s i h; exact h
  mono := by
    intro s i r j hj hp he
    rcases r with _ | ⟨ok, v⟩ | v | _ | _ <;> (try cases ok) <;>
      simp_all [waitUntilS, Fix.keep, Fix.kill, Fix.unbuf, Fix.misuseIfDead] <;>
      (try split) <;> simp_all
  dead_exit := by
    intro s i r h1 h2
    rcases r with _ | ⟨ok, v⟩ | v | _ | _ <;> (try cases ok) <;>
      simp_all [waitUntilS, Fix.keep, Fix.kill, Fix.unbuf, Fix.misuseIfDead] <;>
      (try split) <;> simp_all
  arm := by
    intro s i r j h
    rcases r with _ | ⟨ok, v⟩ | v | _ | _ <;> (try cases ok) <;>
      simp_all [waitUntilS, Fix.keep, Fix.kill, Fix.unbuf] <;> (try split at h) <;> simp_all
  armAll := by
    intro s i r h
    rcases r with _ | ⟨ok, v⟩ | v | _ | _ <;> (try cases ok) <;>
      simp_all [waitUntilS, Fix.keep, Fix.kill, Fix.unbuf] <;> (try split at h) <;> simp_all <;>
      (try exact allReady_upd _ _ (by assumption))
  start_elig := by intro s j; simp only [waitUntilS, Fix.bump] <;> fin
  start_live := by
    intro s h
    simp_all [waitUntilS, Fix.bump, Fix.misuseIfDead]
  finish_elig := by
    intro s j h
    simp only [waitUntilS, Fix.kill] at h ⊢ <;> (try split at h) <;> simp_all [Fix.misuseIfDead]
  finish_kop := by intro s; simp only [waitUntilS] <;> fin
  evs_handle := by
    intro s i r e h
    rcases r with _ | ⟨ok, v⟩ | v | _ | _ <;> (try cases ok) <;>
      simp_all [waitUntilS, Fix.keep, Fix.kill, Fix.unbuf, Fix.bufEvs, isOwnEv] <;>
      (try split at h) <;> simp_all [isOwnEv]
  evs_finish := by
    intro s e h
    simp only [waitUntilS] at h
    (try split at h) <;> simp at h
  evs_panic := by intro s e h; simp only [waitUntilS, Fix.bufEvs] at h; (try split at h) <;> simp_all [isOwnEv]
  evs_drop := by
    intro s e h
    simp only [waitUntilS, Fix.dropStates, Fix.dropAll, List.mem_append, List.mem_map] at h
    first
      | (rcases h with ⟨_, _, rfl⟩ | ⟨_, _, rfl⟩ <;> rfl)
      | (rcases h with ⟨_, _, rfl⟩; rfl)
      | (simp at h; rcases h with rfl | rfl <;> rfl)
  panic_dead := by intro s; simp [waitUntilS, Fix.kill, Fix.misuseIfDead] <;> (try split) <;> simp
  drop_dead := by intro s; simp [waitUntilS, Fix.kill, Fix.misuseIfDead] <;> (try split) <;> simp


/-- every fixed-children family is lawful -/
theorem lawful_policy (f : Fam) (h : f.isGroup = false) : Lawful f.policy := by
  cases f <;> simp only [Fam.policy] <;> first
    | exact lawful_joinSlice | exact lawful_joinTuple | exact lawful_tryJoinSlice
    | exact lawful_tryJoinTuple | exact lawful_race | exact lawful_raceOkArr
    | exact lawful_raceOkVec | exact lawful_raceOkTup | exact lawful_merge | exact lawful_zip
    | exact lawful_chain | exact lawful_waitUntilF | exact lawful_waitUntilS
    | (simp [Fam.isGroup] at h)

end Fc
