/-
  FcLemmas/KTieJoinVDDrop.lean — Vec join, no_std / alloc-only flavour (FcGen/KSrcFam2D.lean): the translated
  `PinnedDrop` destructor `Join::drop` refines `Eng.drop joinSlice` (the destructor does not touch the waker module: the
  proof is that of the std flavour, FcLemmas/KTieJoinDrop.lean, read through `TieDir.absV`).
  Two `Rs.forBreak` loops that never stop early: the outputs already produced are released (`OutputVec::drop` on the
  `Ready` slots — each holds a value), then the children still pending.  The loop bodies are taken from the generated
  definition by unification (`refine forBreak_bindJ …`); the proofs use the role abbreviations only (`unroles`).
-/
import FcLemmas.KTieJoinVDDefs

set_option linter.unusedSimpArgs false
set_option linter.unusedVariables false

namespace Fc
open Rs Src

namespace TieJoinVD
open JoinVD

local macro "unroles" : tactic =>
  `(tactic| try simp only [Join.roleKids, Join.roleCount, Join.roleWakers, Join.roleStates,
      Join.roleDone, Join.roleItems] at *)

/-- the value event of slot `j` -/
def evValJ (g : Join) (j : Nat) : Ev := .valDropped ((g.roleItems.get j).getD 0)

/-- the model side: the trace of `Eng.drop joinSlice` in terms of the two index lists the destructor walks -/
theorem drop_traceJ (g : Join) (b : Eng Fix) (hsl : g.roleStates.len = g.roleKids.len) :
    (Eng.drop joinSlice (absJ g b)).w.trace
      = .dropEnd :: (((Rs.PVec.indexesOf g.roleStates PS.PollState.pending).map Ev.childDropped).reverse ++
          (((Rs.PVec.indexesOf g.roleStates PS.PollState.ready).map (evValJ g)).reverse ++
            (.dropBegin :: b.w.trace))) := by
  have h1 : (List.range g.roleKids.len).filter (fun i => decide (TiePS.abs (g.roleStates.get i) = PS.ready))
      = (List.range g.roleKids.len).filter (fun i => decide (g.roleStates.get i = PS.PollState.ready)) := by
    apply List.filter_congr
    intro i _
    simp only [TiePS.abs_readyJ]
  have h2 : (List.range g.roleKids.len).filter (fun i => decide (TiePS.abs (g.roleStates.get i) = PS.pending))
      = (List.range g.roleKids.len).filter (fun i => decide (g.roleStates.get i = PS.PollState.pending)) := by
    apply List.filter_congr
    intro i _
    simp only [TiePS.abs_pendingJ]
  simp only [Eng.drop, joinSlice, Fix.dropStates, absJ, World.emits, World.emit, Rs.PVec.indexesOf, hsl, h1, h2,
    List.reverse_append, List.append_assoc, TieDir.absV]
  rfl

theorem drop_tie_mainJ : drop_tie_statement := by
  intro g b hW _
  obtain ⟨hsl, hic, hpc, hrs⟩ := hW
  have htr := drop_traceJ g b hsl
  -- the slots the two loops walk
  have hmem1 : ∀ j ∈ Rs.PVec.indexesOf g.roleStates PS.PollState.ready,
      j < g.roleItems.cap ∧ ∃ v, g.roleItems.get j = some v := by
    intro j hj
    simp only [Rs.PVec.indexesOf, List.mem_filter, List.mem_range, decide_eq_true_eq] at hj
    have hjn : j < g.roleKids.len := by rw [← hsl]; exact hj.1
    refine ⟨by rw [hic]; exact hjn, ?_⟩
    rcases hrs j hjn with h | h
    · rw [hj.2] at h; cases h
    · exact h.2
  have hnd1 : (Rs.PVec.indexesOf g.roleStates PS.PollState.ready).Nodup := List.Nodup.sublist List.filter_sublist List.nodup_range
  have hmem2 : ∀ j ∈ Rs.PVec.indexesOf g.roleStates PS.PollState.pending, j < g.roleKids.len := by
    intro j hj
    simp only [Rs.PVec.indexesOf, List.mem_filter, List.mem_range] at hj
    rw [← hsl]; exact hj.1
  unfold Join.drop
  simp only [Option.bind_eq_bind, Option.bind_some, Option.pure_def]
  suffices h : ∃ a : Join × World × Unit, _ = some a ∧
      (a.2.1.trace = ((Rs.PVec.indexesOf g.roleStates PS.PollState.pending).map Ev.childDropped).reverse ++
          (((Rs.PVec.indexesOf g.roleStates PS.PollState.ready).map (evValJ g)).reverse ++
            (.dropBegin :: b.w.trace)) ∧ a.2.1.scripts = b.w.scripts ∧ a.2.1.handed = b.w.handed) by
    obtain ⟨⟨g', env', u⟩, h1, h2, h3, h4⟩ := h
    refine ⟨g', env', h1, ?_, h3, h4⟩
    rw [htr]
    exact congrArg _ h2.symm
  refine forBreak_bindJ
    (fun rest (s : Join × World) => rest.Nodup ∧ s.1.roleStates = g.roleStates ∧ s.1.roleKids = g.roleKids ∧
      s.1.roleItems.cap = g.roleItems.cap ∧
      (∀ j ∈ rest, j < g.roleItems.cap ∧ (∃ v, g.roleItems.get j = some v) ∧
        s.1.roleItems.get j = g.roleItems.get j) ∧
      (rest.map (evValJ g)).reverse ++ s.2.trace
        = ((Rs.PVec.indexesOf g.roleStates PS.PollState.ready).map (evValJ g)).reverse ++ (.dropBegin :: b.w.trace) ∧
      s.2.scripts = b.w.scripts ∧ s.2.handed = b.w.handed)
    _ ?step1 _ _ ?init1 _ _ ?k1
  case init1 =>
    exact ⟨hnd1, rfl, rfl, rfl, fun j hj => ⟨(hmem1 j hj).1, (hmem1 j hj).2, rfl⟩, rfl, rfl, rfl⟩
  case step1 =>
    intro k rest s ⟨hnd, hst, hkd, hcap, hget, htrc, hsc, hha⟩
    obtain ⟨hk1, ⟨v, hk2⟩, hk3⟩ := hget k (List.mem_cons_self ..)
    rw [List.nodup_cons] at hnd
    have hdrop : Rs.OutVec.drop s.1.roleItems k
        = some (⟨s.1.roleItems.cap, fun j => if j = k then none else s.1.roleItems.get j⟩, v) := by
      simp [Rs.OutVec.drop, hcap, hk1, hk3, hk2]
    unroles
    simp only [hdrop, Option.bind_some]
    refine ⟨_, rfl, hnd.2, hst, hkd, hcap, ?_, ?_, hsc, hha⟩
    · intro j hj
      obtain ⟨a1, a2, a3⟩ := hget j (List.mem_cons_of_mem _ hj)
      refine ⟨a1, a2, ?_⟩
      have hjk : j ≠ k := fun h => hnd.1 (h ▸ hj)
      unroles
      simp only [hjk, if_false]
      exact a3
    · rw [← htrc]
      simp only [List.map_cons, List.reverse_cons, List.append_assoc, World.emit, evValJ]
      unroles
      simp [hk2]
  case k1 =>
    intro s1 ⟨_, hst, hkd, _, _, htrc, hsc, hha⟩
    rw [List.map_nil, List.reverse_nil, List.nil_append] at htrc
    unroles
    rw [hst]
    refine forBreak_bindJ
      (fun rest (s : Join × World) => (∀ j ∈ rest, j < g.roleKids.len) ∧ s.1.roleKids = g.roleKids ∧
        (rest.map Ev.childDropped).reverse ++ s.2.trace
          = ((Rs.PVec.indexesOf g.roleStates PS.PollState.pending).map Ev.childDropped).reverse ++ s1.2.trace ∧
        s.2.scripts = b.w.scripts ∧ s.2.handed = b.w.handed)
      _ ?step2 _ _ ?init2 _ _ ?k2
    case init2 =>
      exact ⟨hmem2, hkd, rfl, hsc, hha⟩
    case step2 =>
      intro k rest s ⟨hlt, hkd', htrc', hsc', hha'⟩
      have hkid : Rs.Kids.get s.1.roleKids k = some k := by
        simp [Rs.Kids.get, hkd', hlt k (List.mem_cons_self ..)]
      unroles
      simp only [hkid, Option.bind_some]
      refine ⟨_, rfl, fun j hj => hlt j (List.mem_cons_of_mem _ hj), hkd', ?_, hsc', hha'⟩
      rw [← htrc']
      simp [List.map_cons, List.reverse_cons, List.append_assoc, World.emit]
    case k2 =>
      intro s2 ⟨_, _, htrc2, hsc2, hha2⟩
      rw [List.map_nil, List.reverse_nil, List.nil_append] at htrc2
      refine ⟨_, rfl, ?_, hsc2, hha2⟩
      dsimp only
      rw [htrc2, htrc]

end TieJoinVD
end Fc
