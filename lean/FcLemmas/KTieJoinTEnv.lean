/-
  FcLemmas/KTieJoinTEnv.lean — tuple join (`(A, B, …).join()`): the environment of a translated poll function
  (Fc/RustEnv.lean) with the crate's own `InlineWakerArray::wake` (translated) on a well-formed `ReadinessArray<N>` — the
  readiness set of a tuple is the array one — refines the hand-written kernel: `Rs.fire` = `World.fire`,
  `Rs.fires` = `World.fires`, `Rs.pollChild` with the sub-waker of a slot = `World.pollChild`.
  The combined world of a readiness set `r` and an environment `env` is `TieArr.abs r env`.
  Same text as FcLemmas/KTieJoinAEnv.lean (every array family has its own copy, so that no family depends on the generated
  source of another); `HandedIn` is reused from FcLemmas/KTieMergeEnv.lean.
  Everything lives in the namespace `TieJoinT.Env` (no clash with the Vec lemmas or with the array families).
-/
import FcProps.KTieJoinTup
import FcLemmas.KTieMergeEnv

set_option linter.unusedSimpArgs false
set_option linter.unusedVariables false

namespace Fc
open Rs Src

namespace TieJoinT
namespace Env
open StdArr TieArr

@[simp] theorem abs_scripts (r : ReadinessArray) (b : World) : (abs r b).scripts = b.scripts := rfl
@[simp] theorem abs_handed (r : ReadinessArray) (b : World) : (abs r b).handed = b.handed := rfl
@[simp] theorem abs_trace (r : ReadinessArray) (b : World) : (abs r b).trace = b.trace := rfl
@[simp] theorem abs_mode (r : ReadinessArray) (b : World) : (abs r b).mode = .std := rfl
@[simp] theorem abs_parent (r : ReadinessArray) (b : World) : (abs r b).parent = r.roleParent := rfl
theorem abs_emitM (r : ReadinessArray) (b : World) (e : Ev) : abs r (b.emit e) = (abs r b).emit e := rfl
theorem abs_emitsM (r : ReadinessArray) (b : World) (l : List Ev) : abs r (b.emits l) = (abs r b).emits l := rfl
@[simp] theorem abs_stepOf (r : ReadinessArray) (b : World) (c : Nat) : (abs r b).stepOf c = b.stepOf c := rfl
@[simp] theorem abs_resOf (r : ReadinessArray) (b : World) (c : Nat) : (abs r b).resOf c = b.resOf c := rfl
@[simp] theorem abs_wakerFor (r : ReadinessArray) (b : World) (i : Nat) : (abs r b).wakerFor i = .sub i := rfl

/-- the translated `wake`, as the environment invokes it -/
abbrev wakeA (N : Nat) : Nat → ReadinessArray → Option (ReadinessArray × List Nat × Unit) :=
  fun i r => InlineWakerArray.wake N ⟨i⟩ r

theorem fire_tieM (N : Nat) (r : ReadinessArray) (env : World) (c age : Nat)
    (h : Wf N r) (hp : r.roleParent ≠ none) (hh : HandedIn N env) :
    ∃ r' env', Rs.fire (wakeA N) r env c age = some (r', env') ∧ Wf N r' ∧ r'.roleParent ≠ none ∧
      abs r' env' = (abs r env).fire c age := by
  unfold Rs.fire World.fire
  simp only [abs_handed]
  cases hg : (env.handed c)[age]? with
  | none => exact ⟨r, _, rfl, h, hp, rfl⟩
  | some wk =>
    cases wk with
    | par p => exact ⟨r, _, rfl, h, hp, rfl⟩
    | sub i =>
      have hi : i < N := hh c i (List.mem_of_getElem? hg)
      obtain ⟨r', ws, h1, h2, h3⟩ := (wake_tie N r (env.emit (.fired c age (some (.sub i)))) i h hi).2 (Or.inl hp)
      refine ⟨r', (env.emit (.fired c age (some (.sub i)))).emits (ws.map .woke), ?_, h2, ?_, ?_⟩
      · simp only [Rs.fireWk, wakeA, h1]
      · have := congrArg World.parent h3
        simp at this
        rw [this]; exact hp
      · simp only [abs_emitsM, h3]; rfl

theorem fires_tieM (N : Nat) (l : List (Nat × Nat)) : ∀ (r : ReadinessArray) (env : World),
    Wf N r → r.roleParent ≠ none → HandedIn N env →
    ∃ r' env', Rs.fires (wakeA N) r env l = some (r', env') ∧ Wf N r' ∧ r'.roleParent ≠ none ∧
      abs r' env' = (abs r env).fires l := by
  induction l with
  | nil => intro r env h hp hh; exact ⟨r, env, rfl, h, hp, rfl⟩
  | cons p l ih =>
    intro r env h hp hh
    obtain ⟨r1, env1, e1, w1, p1, a1⟩ := fire_tieM N r env p.1 p.2 h hp hh
    have hh1 : HandedIn N env1 := by
      have := congrArg World.handed a1
      simp at this
      intro c i; rw [this]; exact hh c i
    obtain ⟨r2, env2, e2, w2, p2, a2⟩ := ih r1 env1 w1 p1 hh1
    refine ⟨r2, env2, ?_, w2, p2, ?_⟩
    · simp only [Rs.fires, e1, e2]
    · rw [a2, a1, World.fires_cons]

/-- one poll of child `c` in slot `i` with the sub-waker of that slot -/
theorem pollChild_tieM (N : Nat) (r : ReadinessArray) (env : World) (c i : Nat)
    (h : Wf N r) (hp : r.roleParent ≠ none) (hh : HandedIn N env) (hi : i < N) :
    ∃ r' env', Rs.pollChild (wakeA N) r env c (.sub i) = some (r', env', env.resOf c) ∧ Wf N r' ∧
      r'.roleParent ≠ none ∧ abs r' env' = (abs r env).pollChild c i ∧ HandedIn N env' ∧
      env'.scripts = upd env.scripts c (env.scripts c).tail := by
  have hh0 : HandedIn N
      { env with
        scripts := upd env.scripts c (env.scripts c).tail,
        handed := upd env.handed c (Wk.sub i :: env.handed c),
        trace := .childBegin c i (.sub i) :: env.trace } := by
    intro c' j hm
    by_cases hc : c' = c
    · subst hc
      simp at hm
      rcases hm with hm | hm
      · omega
      · exact hh _ _ hm
    · simp [upd, hc] at hm
      exact hh _ _ hm
  obtain ⟨r', env', e1, w1, p1, a1⟩ := fires_tieM N (env.stepOf c).fires r _ h hp hh0
  refine ⟨r', env'.emit (.childEnd c (env.resOf c)), ?_, w1, p1, ?_, ?_, ?_⟩
  · simp only [Rs.pollChild, Rs.slotOf, e1]
  · rw [abs_emitM, a1]; rfl
  · have := congrArg World.handed a1
    simp at this
    intro c' j; simp only [World.emit_handed]; rw [this]; exact hh0 c' j
  · have := congrArg World.scripts a1
    simp at this
    simp only [World.emit_scripts]; rw [this]

end Env
end TieJoinT
end Fc
