/-
  FcLemmas/LiveGAnySwap.lean — a group that has no member does not depend on the scripts at all:
  the "may be polled" invariant `LGW` survives replacing ALL scripts of the World (by scripts of the
  group's kind).  The safety invariants mention the scripts only through `G.KOk` (every scripted
  result is of the group's kind), `WG` only through the scripts of the members.

  Used when a drained group is refilled: the restriction `rE ids₁` to the ids of the first generation
  is exchanged for the restriction `rE ids₂` to the ids of the second one, so that the scripts of the
  first generation (whatever is left of them) no longer count in the progress measure.
-/
import FcLemmas.LiveGAnyInst
set_option linter.unusedSimpArgs false
set_option linter.unusedVariables false

namespace Fc
namespace LiveGAny
open Mon Live Live3 G Grp C01 LiveG

/-- the engine state with all scripts replaced -/
def setSE (e : Eng Grp) (f : Nat → List Step) : Eng Grp := { w := setS e.w f, s := e.s }

variable {stream keyed : Bool} {m : Mode} {n : Nat}

theorem cb_setS (e : Eng Grp) (f : Nat → List Step) (h : CB n e)
    (hf : ∀ c st, st ∈ f c → st.res.fits e.s.stream = true) : CB n (setSE e f) :=
  ⟨h.slab, h.link, h.cap, ⟨h.ok.pend, hf⟩, h.out, h.m20, h.qe⟩

theorem gk_setS (w : World) (f : Nat → List Step) (mem : Nat → Option Nat) (h : GK w mem none) :
    GK (setS w f) mem none :=
  ⟨⟨h.bc.std, h.bc.cnt, h.bc.hi⟩, h.hand, h.par, h.lwk, h.i2, h.nv, h.nowp⟩

theorem sb_setS (e : Eng Grp) (f : Nat → List Step) (h : SB n e)
    (hf : ∀ c st, st ∈ f c → st.res.fits e.s.stream = true) : SB n (setSE e f) :=
  ⟨cb_setS e f h.cb hf, gk_setS e.w f e.s.member h.gk, h.mb,
    fun ha hl => ⟨(h.gj ha hl).pw, (h.gj ha hl).j⟩⟩

theorem db_setS (e : Eng Grp) (f : Nat → List Step) (h : DB n e)
    (hf : ∀ c st, st ∈ f c → st.res.fits e.s.stream = true) : DB n (setSE e f) :=
  ⟨cb_setS e f h.cb hf, ⟨h.gd.dir, h.gd.hand, h.gd.nowp⟩, h.mb,
    fun ha hl => ⟨⟨(h.dj ha hl).1.pw, (h.dj ha hl).1.wk, (h.dj ha hl).1.o⟩, (h.dj ha hl).2⟩⟩

/-- a group without members: all scripts may be replaced -/
theorem lgw_setS (e : Eng Grp) (f : Nat → List Step) (h : LGW stream keyed m n e)
    (hnm : ∀ k, e.s.member k = none)
    (hf : ∀ c st, st ∈ f c → st.res.fits stream = true) : LGW stream keyed m n (setSE e f) := by
  obtain ⟨U, hU, hUk⟩ := h.g11
  have hs : e.s.stream = stream := (hU.live h.dead).1.hs
  have hf' : ∀ c st, st ∈ f c → st.res.fits e.s.stream = true := by rw [hs]; exact hf
  refine ⟨h.mode, fun hm => sb_setS e f (h.std hm) hf', fun hm => db_setS e f (h.dir hm) hf',
    ⟨U, hU, hUk⟩, h.dead, h.al, h.bnd, ⟨?_, h.wg.hw, h.wg.lw, h.wg.ep⟩, ?_, h.nk⟩
  · intro k c hk
    have : e.s.member k = none := hnm k
    rw [show (setSE e f).s.member k = e.s.member k from rfl, this] at hk
    cases hk
  · intro k c hk
    have : e.s.member k = none := hnm k
    rw [show (setSE e f).s.member k = e.s.member k from rfl, this] at hk
    cases hk

/-- exchanging one restriction for another -/
theorem rE_swap (ids ids' : List Nat) (e : Eng Grp) :
    setSE (rE ids e) (restrS ids' e.w.scripts) = rE ids' e := rfl

end LiveGAny
end Fc
