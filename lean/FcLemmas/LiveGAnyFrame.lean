/-
  FcLemmas/LiveGAnyFrame.lean — what a poll of a group leaves alone: if every eligible slot holds a
  member among `ids` (`LiveG.MemIn`), this is still so after the poll (no member is added), and the
  scripts of all ids outside `ids` are untouched (only members are polled).
-/
import FcLemmas.LiveGRestr
set_option linter.unusedSimpArgs false
set_option linter.unusedVariables false

namespace Fc
namespace LiveGAny
open Mon Live Live3 G Grp C01 LiveG

variable {ids : List Nat}

/-- one loop iteration -/
theorem visit_frame (e : Eng Grp) (k : Nat) (H : MemIn ids e.s) :
    MemIn ids (Eng.visit group e k).1.s ∧
    ∀ c, c ∉ ids → (Eng.visit group e k).1.w.scripts c = e.w.scripts c := by
  refine ⟨(rE_visit e k H).2, ?_⟩
  intro c hc
  unfold Eng.visit
  have hla : group.loopAny = false := rfl
  simp only [hla, Bool.false_and, Bool.false_eq_true, if_false]
  by_cases hg : Eng.gateGo group e k = true
  · simp only [hg, Bool.not_true, Bool.false_eq_true, if_false]
    obtain ⟨c', hc', hmk⟩ := H k (elig_of_go hg)
    have hchild : group.child e.s k = c' := by rw [group_child, hmk]; rfl
    have hne : c ≠ c' := fun hh => hc (hh ▸ hc')
    rw [hchild]
    by_cases hp : e.w.resOf c' = .panic
    · simp only [hp, if_true, emits_scripts, pollChild_scripts, gateW_scripts,
        upd_other _ _ _ _ hne]
    · simp only [hp, if_false, Eng.applyH_w, kop_scripts, emits_scripts, pollChild_scripts,
        gateW_scripts, upd_other _ _ _ _ hne]
  · simp only [hg, Bool.not_false, if_true, gateW_scripts]

/-- the loop -/
theorem scan_frame : ∀ (l : List Nat) (e : Eng Grp), MemIn ids e.s →
    MemIn ids (Eng.scan group l e).1.s ∧
    ∀ c, c ∉ ids → (Eng.scan group l e).1.w.scripts c = e.w.scripts c := by
  intro l
  induction l with
  | nil => intro e H; exact ⟨H, fun _ _ => rfl⟩
  | cons i rest ih =>
    intro e H
    obtain ⟨hH, hS⟩ := visit_frame e i H
    unfold Eng.scan
    cases hvis : (Eng.visit group e i).2 with
    | some o => exact ⟨hH, hS⟩
    | none =>
      simp only
      obtain ⟨h1, h2⟩ := ih _ hH
      exact ⟨h1, fun c hc => by rw [h2 c hc, hS c hc]⟩

/-- one top-level poll -/
theorem poll_frame (e : Eng Grp) (wid : Nat) (H : MemIn ids e.s) :
    MemIn ids (Eng.poll group e wid).s ∧
    ∀ c, c ∉ ids → (Eng.poll group e wid).w.scripts c = e.w.scripts c := by
  unfold Eng.poll
  cases hpre : group.pre e.s with
  | some o => exact ⟨H, fun _ _ => rfl⟩
  | none =>
    simp only
    unfold Eng.body
    split
    · exact ⟨H, fun _ _ => rfl⟩
    · have hst : MemIn ids (group.start e.s) := H
      obtain ⟨h1, h2⟩ := scan_frame (ids := ids) (group.order e.s)
        { w := (e.w.emit (.pollBegin wid)).setWaker wid, s := group.start e.s } hst
      unfold Eng.close
      split
      · exact ⟨h1, h2⟩
      · rw [finish_eq]
        refine ⟨?_, fun c hc => ?_⟩
        · intro j hj
          exact h1 j hj
        · simp only [Eng.emit_w, Eng.applyH_w, World.emit_scripts, kop_scripts, emits_scripts]
          exact h2 c hc

end LiveGAny
end Fc
