/-
  FcLemmas/NestC03Virt.lean — the flat C03 invariant of one engine instance over `n` children,
  for a World whose scripts are of the right kind only for the children `c < n`.

  The flat invariants ask EVERY script of the World to be of the right kind (`ScriptsOk`); in a
  nest the script function is shared between the levels (plain children `c < n`, leaves
  `100*(c+1)+g`), so only the ids an instance really owns can be constrained.  An instance never
  looks at the scripts of ids `≥ n` (`poll_ss_lt`, from `Nest.scan_ss`), so the invariant is
  carried on a "virtual" instance whose other scripts are emptied: `VDI`.
-/
import FcLemmas.NestC03Poll
import FcLemmas.LiveNRel
set_option linter.unusedSimpArgs false
set_option linter.unusedVariables false

namespace Fc
open Mon

/-! ### the flat C03 invariant of one engine instance -/

/-- the flat C03 invariant, whichever `Disc` instance applies to the policy -/
def DI (P : Policy Fix) (m : Mode) (K : Nat → Res → Prop) (e : Eng Fix) : Prop :=
  ∃ (E : Fix → Nat → Prop) (X : Fix → List Nat → Prop),
    C03.Disc P m K E X ∧ e.w.mode = m ∧ ScriptsOk K e.w ∧ C03.I P E e.s e.w.trace

namespace DI
variable {P : Policy Fix} {m : Mode} {K : Nat → Res → Prop}

theorem law {e : Eng Fix} (h : DI P m K e) : Lawful P := by
  obtain ⟨E, X, D, _⟩ := h; exact D.law

theorem holds {e : Eng Fix} (h : DI P m K e) : holds_C03 false e.w.trace = true := by
  obtain ⟨E, X, D, _, _, hI⟩ := h; exact hI.1

theorem scriptsOk {e : Eng Fix} (h : DI P m K e) : ScriptsOk K e.w := by
  obtain ⟨E, X, D, _, hk, _⟩ := h; exact hk

theorem poll {e : Eng Fix} (h : DI P m K e) (wid : Nat) : DI P m K (Eng.poll P e wid) := by
  obtain ⟨E, X, D, hm, hk, hI⟩ := h
  have := Sim.pollT (C03.disc_sim D) e wid hm hk hI
  exact ⟨E, X, D, this.1, this.2.1, this.2.2⟩

theorem fire {e : Eng Fix} (h : DI P m K e) (c a : Nat) : DI P m K (e.fire c a) := by
  obtain ⟨E, X, D, hm, hk, hI⟩ := h
  have := Sim.fireT (C03.disc_sim D) e c a hm hk hI
  exact ⟨E, X, D, this.1, this.2.1, this.2.2⟩

theorem drop {e : Eng Fix} (h : DI P m K e) : DI P m K (Eng.drop P e) := by
  obtain ⟨E, X, D, hm, hk, hI⟩ := h
  have := Sim.dropT (C03.disc_sim D) e hm hk hI
  exact ⟨E, X, D, this.1, this.2.1, this.2.2⟩

/-- the invariant looks at the scripts only through `ScriptsOk` -/
theorem scripts {e : Eng Fix} (h : DI P m K e) (f : Nat → List Step)
    (hf : ∀ c st, st ∈ f c → K c st.res) : DI P m K (Nest.setScripts e f) := by
  obtain ⟨E, X, D, hm, hk, hI⟩ := h
  exact ⟨E, X, D, hm, ⟨hk.pend, hf⟩, hI⟩

theorem init (f : Fam) (hg : f.isGroup = false) (md : Mode) (n : Nat) (scripts : Nat → List Step)
    (hk : ∀ ch st, st ∈ scripts ch → st.res.fits (f.childIsStream ch) = true) :
    DI f.policy (f.modeOf md) (Sim.kindRes f) (FEng.init f md n scripts) := by
  have hs : ScriptsOk (Sim.kindRes f) (FEng.init f md n scripts).w := ⟨fun _ => rfl, hk⟩
  cases f <;> simp only [Fam.policy]
  · exact ⟨_, _, C03.disc_joinSlice _, rfl, hs, C03.inv_init _ _ _⟩
  · exact ⟨_, _, C03.disc_joinTuple _, rfl, hs, C03.inv_init _ _ _⟩
  · exact ⟨_, _, C03.disc_tryJoinSlice _, rfl, hs, C03.inv_init _ _ _⟩
  · exact ⟨_, _, C03.disc_tryJoinTuple _, rfl, hs, C03.inv_init _ _ _⟩
  · exact ⟨_, _, C03.disc_race _, rfl, hs, C03.inv_init _ _ _⟩
  · exact ⟨_, _, C03.disc_raceOkArr _, rfl, hs, C03.inv_init _ _ _⟩
  · exact ⟨_, _, C03.disc_raceOkVec _, rfl, hs, C03.inv_init _ _ _⟩
  · exact ⟨_, _, C03.disc_raceOkTup _, rfl, hs, C03.inv_init _ _ _⟩
  · exact ⟨_, _, C03.disc_merge _, rfl, hs, C03.inv_init _ _ _⟩
  · exact ⟨_, _, C03.disc_zip _, rfl, hs, C03.inv_init _ _ _⟩
  · exact ⟨_, _, C03.disc_chain, rfl, hs, C03.inv_init _ _ _⟩
  · exact ⟨_, _, C03.disc_waitUntilF _, rfl, hs, C03.inv_init _ _ _⟩
  · exact ⟨_, _, C03.disc_waitUntilS _, rfl, hs, C03.inv_init _ _ _⟩
  · simp [Fam.isGroup] at hg
  · simp [Fam.isGroup] at hg

end DI

/-! ### the number of children never changes -/

theorem simN {P : Policy Fix} (L : Lawful P) (m : Mode) (n : Nat) :
    Sim P m Sim.anyRes (fun s _ => s.n = n) (fun s _ _ => s.n = n) where
  fireEv := fun _ _ _ _ h => h
  pre := fun _ _ _ _ _ h => h
  start := fun s _ _ _ h => by rw [L.n_start]; exact h
  earlyPend := fun _ _ _ _ _ h => h
  skip := fun _ _ _ _ _ h => h
  goOn := fun s _ i _ _ _ r h _ _ _ _ _ => by rw [L.n_handle]; exact h
  goExit := fun s _ i _ _ _ r _ h _ _ _ _ _ => by rw [L.n_handle]; exact h
  panic := fun s _ _ _ _ _ h _ _ => by rw [L.n_panic]; exact h
  finish := fun s _ h => by rw [L.n_finish]; exact h
  drop := fun s _ h => by rw [L.n_drop]; exact h

theorem Eng.poll_n {P : Policy Fix} (L : Lawful P) (e : Eng Fix) (wid : Nat) :
    (Eng.poll P e wid).s.n = e.s.n :=
  (Sim.pollT (simN L e.w.mode e.s.n) e wid rfl (Sim.scriptsOk_any _) rfl).2.2

namespace Nest

/-- one poll with other scripts that agree on the children `c < n` -/
theorem poll_ss_lt {P : Policy Fix} (L : Lawful P) (hnd : ∀ s, (P.order s).Nodup) (e : Eng Fix)
    (f : Nat → List Step) (wid : Nat) (hA : ∀ c, c < e.s.n → f c = e.w.scripts c) :
    ∃ f', Eng.poll P (setScripts e f) wid = setScripts (Eng.poll P e wid) f' ∧
      (∀ c, c < e.s.n → f' c = (Eng.poll P e wid).w.scripts c) := by
  unfold Eng.poll
  simp only [setScripts_s]
  cases hpre : P.pre e.s with
  | some o => exact ⟨f, rfl, hA⟩
  | none =>
    simp only
    unfold Eng.body
    simp only [setScripts_s, setScripts_w, World.ss_emit, World.ss_setWaker, World.ss_anyReady]
    by_cases hc : (P.preAny (P.start e.s) && !((e.w.emit (.pollBegin wid)).setWaker wid).anyReady) = true
    · simp only [hc, if_true]; exact ⟨f, rfl, hA⟩
    · simp only [hc, Bool.false_eq_true, if_false]
      obtain ⟨f1, hs, hA1⟩ := scan_ss L (fun c => c < e.s.n) (P.order e.s)
        { w := (e.w.emit (.pollBegin wid)).setWaker wid, s := P.start e.s } f (hnd _)
        ⟨fun c hc => by
          have := hA c (L.order_lt e.s c hc)
          show World.stepOf _ c = World.stepOf _ c
          unfold World.stepOf
          simp only [World.ss_scripts]
          rw [this]; rfl, hA⟩
      rw [setScripts_mk] at hs
      rw [hs]
      unfold Eng.close
      simp only
      cases hsc : (Eng.scan P (P.order e.s)
          { w := (e.w.emit (.pollBegin wid)).setWaker wid, s := P.start e.s }).2 with
      | some o => exact ⟨f1, rfl, hA1⟩
      | none =>
        refine ⟨f1, ?_, fun c hc => ?_⟩
        · simp only [Eng.applyH, Eng.emit, setScripts_w, setScripts_s, World.ss_emits, World.ss_kop,
            World.ss_emit]
          rfl
        · simp only [Eng.emit_w, Eng.applyH_w, World.emit_scripts, kop_scripts, emits_scripts]
          exact hA1 c hc

theorem setScripts_drop (P : Policy Fix) (e : Eng Fix) (f : Nat → List Step) :
    Eng.drop P (setScripts e f) = setScripts (Eng.drop P e) f := rfl

end Nest

/-! ### the invariant on the virtual instance -/

structure VDI (P : Policy Fix) (m : Mode) (K : Nat → Res → Prop) (n : Nat) (e : Eng Fix) : Prop where
  sn : e.s.n = n
  vi : ∃ f, (∀ c, c < n → f c = e.w.scripts c) ∧ DI P m K (Nest.setScripts e f)

namespace VDI
variable {P : Policy Fix} {m : Mode} {K : Nat → Res → Prop} {n : Nat}

theorem law {e : Eng Fix} (h : VDI P m K n e) : Lawful P := by
  obtain ⟨f, _, hd⟩ := h.vi; exact hd.law

theorem holds {e : Eng Fix} (h : VDI P m K n e) : holds_C03 false e.w.trace = true := by
  obtain ⟨f, _, hd⟩ := h.vi; exact hd.holds

/-- the scripts of the children the instance owns are of the right kind -/
theorem scriptsOk {e : Eng Fix} (h : VDI P m K n e) (c : Nat) (hc : c < n) (st : Step)
    (hm : st ∈ e.w.scripts c) : K c st.res := by
  obtain ⟨f, hf, hd⟩ := h.vi
  exact hd.scriptsOk.mem c st (by rw [Nest.setScripts_scripts, hf c hc]; exact hm)

theorem poll {e : Eng Fix} (h : VDI P m K n e) (hnd : ∀ s, (P.order s).Nodup) (wid : Nat) :
    VDI P m K n (Eng.poll P e wid) := by
  obtain ⟨f, hf, hd⟩ := h.vi
  have hsn := h.sn
  obtain ⟨f', he, hf'⟩ := Nest.poll_ss_lt hd.law hnd e f wid (by rw [hsn]; exact hf)
  refine ⟨by rw [Eng.poll_n hd.law, hsn], f', by rw [← hsn]; exact hf', ?_⟩
  rw [← he]; exact hd.poll wid

theorem fire {e : Eng Fix} (h : VDI P m K n e) (c a : Nat) : VDI P m K n (e.fire c a) := by
  obtain ⟨f, hf, hd⟩ := h.vi
  refine ⟨h.sn, f, by simpa using hf, ?_⟩
  rw [← Nest.setScripts_fire]; exact hd.fire c a

theorem wfires {e : Eng Fix} (h : VDI P m K n e) (fs : List (Nat × Nat)) :
    VDI P m K n { e with w := e.w.fires fs } := by
  induction fs generalizing e with
  | nil => exact h
  | cons p fs ih => exact ih (h.fire p.1 p.2)

theorem drop {e : Eng Fix} (h : VDI P m K n e) : VDI P m K n (Eng.drop P e) := by
  obtain ⟨f, hf, hd⟩ := h.vi
  refine ⟨by rw [← h.sn]; exact hd.law.n_drop e.s, f, hf, ?_⟩
  rw [← Nest.setScripts_drop]; exact hd.drop

/-- replacing the scripts of the instance by others that are of the right kind for `c < n` -/
theorem scripts {e : Eng Fix} (h : VDI P m K n e) (g : Nat → List Step)
    (hg : ∀ c, c < n → ∀ st, st ∈ g c → K c st.res) : VDI P m K n (Nest.setScripts e g) := by
  obtain ⟨f, hf, hd⟩ := h.vi
  refine ⟨h.sn, fun c => if c < n then g c else [], fun c hc => by simp [hc], ?_⟩
  have := hd.scripts (fun c => if c < n then g c else []) (by
    intro c st hm
    by_cases hc : c < n
    · simp only [hc, if_true] at hm; exact hg c hc st hm
    · simp [hc] at hm)
  exact this

theorem init (f : Fam) (hg : f.isGroup = false) (md : Mode) (n : Nat) (scripts : Nat → List Step)
    (hk : ∀ ch, ch < n → ∀ st, st ∈ scripts ch → st.res.fits (f.childIsStream ch) = true) :
    VDI f.policy (f.modeOf md) (Sim.kindRes f) n (FEng.init f md n scripts) := by
  refine ⟨rfl, fun c => if c < n then scripts c else [], fun c hc => by simp [hc, FEng.init, World.init], ?_⟩
  exact DI.init f hg md n _ (by
    intro ch st hm
    by_cases hc : ch < n
    · simp only [hc, if_true] at hm; exact hk ch hc st hm
    · simp [hc] at hm)

end VDI
end Fc
