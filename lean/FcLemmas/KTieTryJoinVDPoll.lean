/-
  FcLemmas/KTieTryJoinVDPoll.lean — no_std / alloc-only flavour of `Vec<Fut>::try_join()`: the translated
  `TryJoin::poll` (FcGen/KSrcFam3D.lean) refines `Eng.poll tryJoinSlice` in `direct` mode.  Counterpart of
  FcLemmas/KTieTryJoinPoll.lean: the loop body is taken from the generated definition by unification
  (`refine tjd_loop_bind …`; the two textual copies of the loop are first merged by `tj_ite_ite`); the proofs use the role
  abbreviations only (`unroles`).  The pre-check `if !any_ready { return Pending }` is never taken (`any_ready` is `true`),
  `clear_ready` always answers `true`, every `Pending` child is polled with the stored parent waker.
-/
import FcLemmas.KTieTryJoinVDMain

set_option linter.unusedSimpArgs false
set_option linter.unusedVariables false

namespace Fc
open Rs Src

namespace TieTryJoinVD
open TryJoinVD
open TieTryJoinV (tj_ite_ite tj_abs_pending tj_abs_ready tj_abs_none jcoreDone tj_count_set tj_count_pos
  tj_visit_notPending tj_visit_pend tj_visit_ok tj_visit_err tj_poll_scan tj_close_some tj_close_pending tj_close_done)

local macro "unroles" : tactic =>
  `(tactic| try simp only [TryJoin.roleKids, TryJoin.roleCount, TryJoin.roleWakers, TryJoin.roleStates,
      TryJoin.roleDone, TryJoin.roleItems] at *)

theorem tjd_poll_core (g : TryJoin) (b : Eng Fix) (w : Nat) (hW : WfT g) (hS : FutStepsF b.w)
    (hH : HandedIn g.roleKids.len b.w) (hd : g.roleDone = false) :
    ∃ g' env' ret,
      TryJoin.poll g w ((absT g b).w.emit (.pollBegin w)) = some (g', env', ret) ∧
      Post g.roleKids.len b (Eng.poll tryJoinSlice (absT g b) w) g' env' ret := by
  have hW0 := hW
  obtain ⟨hsl, hic, hpc, hrs⟩ := hW
  obtain ⟨r1, hs1, hs3⟩ := (TieDir.vec_tie g.roleWakers.readiness ((absT g b).w.emit (.pollBegin w)) 0 w 0).2.2.2.2.2.2.2.2.1
  have hparent : r1.roleParent = some w := by
    have := congrArg World.parent hs3
    simpa using this
  have ha : DirVec.ReadinessVec.any_ready r1 = some true :=
    (TieDir.vec_tie r1 ((absT g b).w.emit (.pollBegin w)) 0 0 0).2.2.2.2.2.2.2.1
  have hd' : (!g.roleDone) = true := by rw [hd]; rfl
  have hdm : (absT g b).s.dead = false := hd
  have hR0 : ∀ g0 : TryJoin, g0.roleKids = g.roleKids → g0.roleStates = g.roleStates → g0.roleItems = g.roleItems →
      g0.roleCount = g.roleCount → g0.roleDone = g.roleDone →
      g0.roleWakers.readiness = r1 →
      Rel g.roleKids.len b.s.off b.w
        ({ absT g b with w := ((absT g b).w.emit (.pollBegin w)).setWaker w } : Eng Fix) g0
        ((absT g b).w.emit (.pollBegin w)) := by
    intro g0 e1 e2 e3 e4 e5 e7
    refine ⟨?_, rfl, by rw [e1], ?_, ?_, ?_, rfl, ?_,
      by rw [e2]; exact hsl, by rw [e3]; exact hic, by rw [e7, hparent]; simp, ⟨rfl, rfl, rfl⟩,
      fun c i hm => hH c i hm, hS⟩
    · rw [e7, hs3]; rfl
    · rw [e2]; rfl
    · rw [e3]; rfl
    · rw [e4]; rfl
    · rw [e5]; rfl
  have hI0 : Inv g.roleKids.len g := ⟨hpc, hrs⟩
  have hE : ¬((g.roleCount != 0) = true ∧ (!true) = true) := by simp
  -- the scan
  have hpoll : Eng.poll tryJoinSlice (absT g b) w = Eng.close tryJoinSlice (Eng.scan tryJoinSlice
      (List.range g.roleKids.len) { absT g b with w := ((absT g b).w.emit (.pollBegin w)).setWaker w }) :=
    tj_poll_scan (absT g b) w hdm (Or.inr rfl)
  unfold TryJoin.poll
  unroles
  simp only [hd', hs1, ↓reduceIte, Option.bind_eq_bind, Option.bind_some, Option.pure_def, ha, tj_ite_ite, hE]
  refine tjd_loop_bind _ b.s.off b.w _ ?hF _
    ({ absT g b with w := ((absT g b).w.emit (.pollBegin w)).setWaker w } : Eng Fix) _ _
    ?hR2 ?hI2 (fun i hi => List.mem_range.mp hi) _ _ ?hK
  case hR2 => apply hR0 <;> rfl
  case hI2 => exact ⟨hpc, hrs⟩
  case hK =>
    intro g' env' r hR' hcase
    rcases hcase with ⟨rfl, hx, hI', hd''⟩ | ⟨v, rfl, hx⟩
    · by_cases hz : g'.roleCount = 0
      · obtain ⟨h1, sts, its, h2, h3, h4⟩ := tjd_post_done b hR' hI' hz
        have hclose := tj_close_done _ hx (by rw [hR'.cnt]; exact hz)
        unroles
        simp only [hz, beq_self_eq_true, ↓reduceIte, h1, h2, h3, Option.bind_some]
        refine ⟨_, _, _, rfl, ?_⟩
        rw [hpoll, hclose]
        exact h4 _ rfl rfl hz.symm rfl rfl rfl
      · have hclose := tj_close_pending _ hx (by rw [hR'.cnt]; exact hz)
        unroles
        simp only [hz, beq_iff_eq, ↓reduceIte]
        refine ⟨_, _, _, rfl, ?_⟩
        rw [hpoll, hclose]
        exact tjd_post_of_rel b hR' .pending (fun _ => hI') (fun _ => hd''.trans hd) (by intro vs h; cases h)
    · have hclose := tj_close_some _ _ hx
      refine ⟨_, _, _, rfl, ?_⟩
      rw [hpoll, hclose]
      exact tjd_post_of_rel b hR' (.ready (.err v)) (by intro h; cases h) (by intro h; cases h) (by intro vs h; cases h)
  case hF =>
    intro e gg env i hR hI hi
    dsimp only
    have hRR := hR
    have hII := hI
    obtain ⟨hw, hen, hk, hst, hout, hcnt, hoff, hdead, hsl2, hic2, hpar, hfr, hhin, hsok⟩ := hR
    obtain ⟨hpc2, hrs2⟩ := hI
    obtain ⟨p, hpp⟩ := Option.ne_none_iff_exists'.mp hpar
    have hc1 : DirVec.ReadinessVec.clear_ready gg.roleWakers.readiness i = some (gg.roleWakers.readiness, true) :=
      (TieDir.vec_tie gg.roleWakers.readiness env i 0 0).2.1
    have hidx : Rs.PVec.idx gg.roleStates i = some (gg.roleStates.get i) := by
      simp [Rs.PVec.idx, hsl2, hi]
    have hisp := (TiePS.tie (gg.roleStates.get i)).2.1
    have hkid : Rs.Kids.get gg.roleKids i = some i := by simp [Rs.Kids.get, hk, hi]
    have hget : ∀ wk : WakerVecD, wk.readiness = gg.roleWakers.readiness → WakerVecD.get wk i = some (.par p) :=
      fun wk h => get_tieD wk i p (by rw [h]; exact hpp)
    obtain ⟨env3, hp4, hp3, hp6, hp7, hq1, hq2, hq3⟩ := pollResFut_tieD gg.roleWakers.readiness env i p hpp
    have hp5 : HandedIn g.roleKids.len env3 := handedIn_par hhin hp7
    have hsok3 := hsok.tj_tail i hp6
    have hfr3 : Fr env3 b.w := hp3.trans hfr
    try simp only [wakeD] at hq1 hq2 hq3
    by_cases hsp : TiePS.abs (gg.roleStates.get i) = .pending
    rotate_left
    · -- the slot is not `Pending`
      have hv := tj_visit_notPending e i (by rw [hst]; exact hsp)
      unroles
      simp only [hkid, hidx, hisp, hsp, decide_false, Option.bind_some, Bool.false_eq_true, ↓reduceIte]
      refine ⟨_, _, _, rfl, ?_, Or.inl ⟨rfl, ?_, hII, rfl⟩⟩
      · rw [hv]; exact hRR
      · rw [hv]
    · have hsp' : e.s.st i = .pending := by rw [hst]; exact hsp
      have hgp : gg.roleStates.get i = PS.PollState.pending := tj_abs_pending.mp hsp
      -- the child is polled
      have hset' : e.w.isSet i = true := by rw [hw]; rfl
      have hres' : e.w.resOf i = env.resOf i := by rw [hw]; rfl
      have hcl : (e.w.clearReady i).pollChild i i = TieDir.absV gg.roleWakers.readiness env3 := by
        rw [hp4, hw]; rfl
      have hge : 1 ≤ gg.roleCount := by
        rw [hpc2]; exact tj_count_pos _ i _ hi hgp
      have hus : Rs.usub gg.roleCount 1 = some (gg.roleCount - 1) := by simp [Rs.usub, hge]
      unroles
      simp only [hkid, hidx, hisp, hsp, decide_true, hc1, Option.bind_some, ↓reduceIte, hget _ rfl,
        Rs.expect]
      rcases hsok.tj_resOf i with hres | ⟨ok, v, hres⟩
      · -- Pending
        have hv := tj_visit_pend e i hsp' hset' (by rw [hres', hres])
        simp only [hq1 hres, Option.bind_some]
        refine ⟨_, _, _, rfl, ?_, Or.inl ⟨rfl, ?_, ⟨hpc2, hrs2⟩, rfl⟩⟩
        · rw [hv]
          refine hRR.update _ _ _ ?_ rfl rfl hst hout hcnt rfl hdead rfl rfl hpar hfr3 hp5 hsok3
          unroles
          exact hcl
        · rw [hv]
      · cases ok
        · -- Ready(Err(v))
          have hv := tj_visit_err e i v hsp' hset' (by rw [hres', hres])
          obtain ⟨q, hq1', hq2'⟩ := (TiePS.tie (gg.roleStates.get i)).2.2.2.1
          have hset2 : Rs.PVec.set gg.roleStates i q
              = some ⟨gg.roleStates.len, fun j => if j = i then q else gg.roleStates.get j⟩ := by
            simp [Rs.PVec.set, hsl2, hi]
          unroles
          simp only [hq3 v hres, Option.bind_some, hus, hidx, hq1', hset2]
          refine ⟨_, _, _, rfl, ?_, Or.inr ⟨v, rfl, ?_⟩⟩
          · rw [hv]
            refine hRR.update _ _ _ ?_ rfl rfl ?_ hout ?_ rfl rfl rfl rfl hpar hfr3 hp5 hsok3
            · unroles
              rw [absV_emit, hcl]
            · unroles
              funext j
              by_cases hj : j = i <;> simp [upd, hj, hq2', hst]
            · unroles
              simp only [hcnt]
          · rw [hv]
        · -- Ready(Ok(v))
          have hv := tj_visit_ok e i v hsp' hset' (by rw [hres', hres])
          obtain ⟨q, hq1', hq2'⟩ := (TiePS.tie (gg.roleStates.get i)).2.2.2.2.2
          have hqr : q = PS.PollState.ready := tj_abs_ready.mp hq2'
          have hset2 : Rs.PVec.set gg.roleStates i q
              = some ⟨gg.roleStates.len, fun j => if j = i then q else gg.roleStates.get j⟩ := by
            simp [Rs.PVec.set, hsl2, hi]
          have hwr : Rs.OutVec.write gg.roleItems i v
              = some ⟨gg.roleItems.cap, fun j => if j = i then some v else gg.roleItems.get j⟩ := by
            simp [Rs.OutVec.write, hic2, hi]
          have hcs := tj_count_set gg.roleStates.get i _ q hi hgp (by rw [hqr]; decide)
          unroles
          simp only [hq2 v hres, Option.bind_some, hus, hidx, hq1', hset2, hwr]
          refine ⟨_, _, _, rfl, ?_, Or.inl ⟨rfl, ?_, ⟨?_, ?_⟩, rfl⟩⟩
          · rw [hv]
            refine hRR.update _ _ _ ?_ rfl rfl ?_ ?_ ?_ rfl hdead rfl rfl hpar hfr3 hp5 hsok3
            · unroles
              rw [absV_emit, hcl]
            · unroles
              funext j
              by_cases hj : j = i <;> simp [upd, hj, hq2', hst]
            · unroles
              funext j
              by_cases hj : j = i <;> simp [upd, hj, hout]
            · unroles
              simp only [hcnt]
          · rw [hv]
          · unroles
            omega
          · unroles
            intro j hj
            by_cases hji : j = i
            · right
              simp [hji, hqr]
            · simp only [hji, ↓reduceIte]
              exact hrs2 j hj

end TieTryJoinVD
end Fc
