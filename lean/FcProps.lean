import FcProps.C01
import FcProps.C16
