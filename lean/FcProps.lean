import FcProps.C01
import FcProps.C16
import FcProps.C20
