import FcProps.C16
