/-
  fcdriver — runs the Lean model on the cases the Rust harness produced.

  stdin: blocks
      CASE <id> <fam> <mode> <keyed 0|1> <n>
      S <child> <step> ...
      O <op> ...
      T <event>          (implementation trace, optional)
      END
  stdout, per case:
      mode `model`: `CASE <id>`, the model's events, `END`
      mode `check`: `R <id> eq=<0|1> [div=<k> model=<ev> impl=<ev>]`
-/
import Fc.Text
import Fc.Holds
import Fc.CoText
import Fc.MonNest
import Fc.NestText
import Fc.Snap

open Fc

structure CaseAcc where
  id      : String := ""
  fam     : Fam := .joinSlice
  mode    : Mode := .std
  keyed   : Bool := false
  n       : Nat := 0
  scripts : List (Nat × List Step) := []
  ops     : Array Op := #[]
  impl    : Array String := #[]
  ks      : Array String := #[]     -- the crate's own readiness snapshots (fc-verif hook), one per op
  ps      : Array String := #[]     -- `Debug` of the real combinator (its PollState table), one per poll
  bad     : Option String := none
  co      : Option Co.Cfg := none
  coVec   : Option Nat := none      -- `Vec::into_co_stream` source over that many items
  nest    : Bool := false
  nestHdr : List String := []

def CaseAcc.toCase (a : CaseAcc) : Case :=
  { fam := a.fam, mode := a.mode, keyed := a.keyed, n := a.n,
    scripts := fun c => ((a.scripts.find? (fun p => p.1 = c)).map (·.2)).getD [],
    ops := a.ops.toList }

def firstDiff (a b : List String) : Option (Nat × String × String) :=
  let rec go (k : Nat) : List String → List String → Option (Nat × String × String)
    | [], [] => none
    | x :: _, [] => some (k, x, "<end>")
    | [], y :: _ => some (k, "<end>", y)
    | x :: xs, y :: ys => if x = y then go (k + 1) xs ys else some (k, x, y)
  go 0 a b

/-- event kinds (first token of the text form) each property's monitor depends on -/
def projKinds : List (String × List String) :=
  [("C01", ["pb", "pe", "cb", "ce", "fi", "wo", "wp", "cd", "db"]),
   ("C02", ["pe", "ce", "cd", "vd", "db", "de", "in"]),
   ("C03", ["pb", "pe", "cb", "ce", "cd", "db"]),
   ("C16", ["cb", "ce", "fi"]),
   ("C20", ["pb", "pe", "cb", "ce", "fi", "cd", "in"]),
   ("FUN", ["pb", "pe", "cb", "ce", "db"]),
   ("GRP", ["pb", "pe", "cb", "ce", "cd", "in", "rm", "an"])]

def firstTok (l : String) : String := (l.splitOn " ").headD ""

def projEq (model impl : List String) : String :=
  " ".intercalate (projKinds.map (fun (p, ks) =>
    let f := fun (l : String) => ks.contains (firstTok l)
    s!"eq{p}={if model.filter f = impl.filter f then 1 else 0}"))

def words (line : String) : List String :=
  (line.trimAscii.toString.splitOn " ").filter (· ≠ "")

/-- a concurrent-stream case: run the acceptor and the monitors on the implementation's trace -/
def finishCo (a : CaseAcc) (cfg : Co.Cfg) : IO Unit := do
  let parsed := a.impl.toList.map (fun l => Co.parseCoEv (words l))
  if parsed.any (fun p => p == some none) then
    IO.println s!"R {a.id} eq=0 parse=0"
  else
    let evs0 := parsed.filterMap (fun p => p.join)
    let evs := match a.coVec with
      | some j => Co.withHiddenSource cfg j evs0
      | none => evs0
    let pre := match a.coVec with
      | some j => (List.range j).map Co.itemVal
      | none => []
    IO.println s!"R {a.id} {Co.verdict cfg pre evs}"

/-- one level of nesting: the flattened trace of the real code (leaves of the inner combinators and
    the children of the outer one all count as children; the task waker is the outer one's) is
    judged by the same monitors: no owed wake-up of any leaf is outstanding while the nest is
    Pending without the task having been woken (C01), poll discipline (C03), no spurious unwind -/
def finishNest (a : CaseAcc) : IO Unit := do
  match a.impl.toList.mapM (fun l => parseEv (words l)) with
  | none => IO.println s!"R {a.id} eq=0 parse=0"
  | some evs0 =>
    -- the leaves of an inner combinator that has finished (its wrapper answered Ready / None) are out
    -- of the game: their wake-ups no longer matter and they must not be polled again
    let leavesOf := fun (c : Nat) =>
      (evs0.filterMap (fun e => match e with
        | .childBegin l _ _ => if 100 * (c + 1) ≤ l && l < 100 * (c + 2) then some l else none
        | _ => none)).eraseDups
    let evs := evs0.flatMap (fun e => match e with
      | .childEnd c (.ready ok v) => if c < 100 then Ev.childEnd c (.ready ok v) :: (leavesOf c).map Ev.childDropped else [e]
      | .childEnd c .fin => if c < 100 then Ev.childEnd c .fin :: (leavesOf c).map Ev.childDropped else [e]
      | e => [e])
    let t := evs.reverse
    let nch := evs.foldl (fun m e => match e with | .childBegin c _ _ => max m (c + 1) | _ => m) 0
    let b := fun (x : Bool) => if x then "1" else "0"
    -- correspondence with the lock-step model, instance by instance
    let eqText : String := match a.nestHdr with
      | [mode, outer, n, spec] =>
        (match parseMode mode, Nest.parseOuter outer, n.toNat?, Nest.parseSpec spec with
         | some m, some fo, some n, some sp =>
           let nc : Nest.NCase :=
             { mode := m, outer := fo, n := n, inner := fun c => (sp[c]?).join,
               scripts := fun c => ((a.scripts.find? (fun p => p.1 = c)).map (·.2)).getD [],
               ops := a.ops.toList }
           let st := Nest.run nc
           let nested := fun c => (nc.inner c).isSome
           let implWords := a.impl.toList.map words
           let outerM := canonDrop (st.out.w.trace.reverse.filterMap (Nest.outerLine nested))
           let outerI := canonDrop (implWords.filterMap (Nest.outerImplLine nested))
           let inners := (List.range n).filter nested
           let innerOk := inners.all (fun c =>
             canonDrop ((st.inn c).w.trace.reverse.filterMap Nest.innerLine)
               == canonDrop (implWords.filterMap (Nest.innerImplLine c)))
           let dbg := if a.id.endsWith "DBG" then
               "\nMODEL-OUT: " ++ " | ".intercalate outerM ++ "\nIMPL-OUT: " ++ " | ".intercalate outerI ++
               "\n" ++ "\n".intercalate (inners.map (fun c => s!"INN{c} M: " ++ " | ".intercalate (canonDrop ((st.inn c).w.trace.reverse.filterMap Nest.innerLine)) ++ s!"\nINN{c} I: " ++ " | ".intercalate (canonDrop (implWords.filterMap (Nest.innerImplLine c)))))
             else ""
           let od := match firstDiff outerM outerI with
             | none => ""
             | some (k, x, y) => s!" div={k} model=[{x}] impl=[{y}]"
           s!"eq={b (outerM == outerI && innerOk)} eqOUT={b (outerM == outerI)} eqINN={b innerOk} modelNest={b (Nest.holdsNest nc)}" ++ od ++ dbg
         | _, _, _, _ => "eq=0 bad=nest-header")
      | _ => "eq=0 bad=nest-header"
    IO.println s!"R {a.id} {eqText} nest=1 C01={b (Mon.holds_C01_nest nch t)} NP={b (Mon.c01NoPanic t)} C03={b (Mon.holds_C03 false t)}"

def finish (modeArg : String) (a : CaseAcc) : IO Unit := do
  match a.bad, a.co with
  | some msg, _ => IO.println s!"R {a.id} eq=0 bad={msg}"
  | none, some cfg => finishCo a cfg
  | none, none =>
   if a.nest then finishNest a else
    let model := canonDrop ((a.toCase.run).map Ev.text)
    if modeArg = "model" then
      IO.println s!"CASE {a.id}"
      for l in model do IO.println l
      IO.println "END"
    else
      let impl := canonDrop a.impl.toList
      let c := a.toCase
      let nch := a.scripts.foldl (fun m p => max m (p.1 + 1)) (if c.fam.isGroup then 0 else c.n)
      let hs := match a.impl.toList.mapM (fun l => parseEv (words l)) with
        | none => "parse=0"
        | some evs => holdsText c nch evs.reverse
      -- internal state: the readiness bookkeeping after every operation (when the hook is compiled in)
      let ksText : String :=
        if a.ks.isEmpty || !c.hasKernel then "" else
          let ms := c.snaps
          let (ok, k) := snapsAgree ms a.ks.toList
          let where_ := match firstDiff ms (List.zipWith (fun m i => if i = "-" then m else i) ms a.ks.toList) with
            | some (j, m, i) => s!" ksdiv={j} ksmodel={m} ksimpl={i}"
            | none => ""
          s!" eqKS={if ok then 1 else 0} ks={k}/{ms.length}/{a.ks.size}" ++ (if ok then "" else where_)
      -- internal state the crate shows through `Debug`: the PollState table after every poll
      let psText : String :=
        if a.ps.isEmpty || !c.hasPsTable then "" else
          let ms := c.psTables
          match firstDiff ms a.ps.toList with
          | none => s!" eqPS=1 ps={ms.length}"
          | some (j, m, i) => s!" eqPS=0 psdiv={j} psmodel={m.replace " " ""} psimpl={i.replace " " ""}"
      match firstDiff model impl with
      | none => IO.println s!"R {a.id} eq=1 len={model.length} {hs}{ksText}{psText}"
      | some (k, m, i) =>
        IO.println s!"R {a.id} eq=0 {projEq model impl} {hs}{ksText}{psText} div={k} model=[{m}] impl=[{i}]"

partial def loop (modeArg : String) (h : IO.FS.Stream) (a : CaseAcc) : IO Unit := do
  let line ← h.getLine
  if line.isEmpty then return ()
  match words line with
  | "CASE" :: id :: "nest" :: rest => loop modeArg h { id := id, nest := true, nestHdr := rest }
  | "CASE" :: id :: "co" :: _mode :: term :: shape :: takes :: limits :: rest =>
    match Co.parseCfg term shape takes limits with
    | some cfg =>
      let cv := match rest with
        | [items, "v"] => items.toNat?
        | _ => none
      loop modeArg h { id := id, co := some cfg, coVec := cv }
    | none => loop modeArg h { id := id, bad := some "co-header" }
  | "CASE" :: id :: fam :: mode :: keyed :: n :: _ =>
    match parseFam fam, parseMode mode, n.toNat? with
    | some f, some m, some k =>
      loop modeArg h { id := id, fam := f, mode := m, keyed := keyed = "1", n := k }
    | _, _, _ => loop modeArg h { id := id, bad := some "header" }
  | "S" :: c :: steps =>
    match c.toNat?, steps.mapM parseStep with
    | some c, some st => loop modeArg h { a with scripts := (c, st) :: a.scripts }
    | _, _ => loop modeArg h { a with bad := some s!"script:{line.trimAscii.toString}" }
  | "O" :: op =>
    match parseOp op with
    | some o => loop modeArg h { a with ops := a.ops.push o }
    | none => loop modeArg h { a with bad := some s!"op:{line.trimAscii.toString}" }
  | ["T", "ks", snap] => loop modeArg h { a with ks := a.ks.push snap }
  | "T" :: "ps" :: tbl => loop modeArg h { a with ps := a.ps.push (" ".intercalate tbl) }
  | "T" :: ev =>
    loop modeArg h { a with impl := a.impl.push (" ".intercalate ev) }
  | ["END"] => do
    finish modeArg a
    loop modeArg h {}
  | [] => loop modeArg h a
  | _ => loop modeArg h { a with bad := some s!"line:{line.trimAscii.toString}" }

def main (args : List String) : IO Unit := do
  let modeArg := args.headD "check"
  loop modeArg (← IO.getStdin) {}
