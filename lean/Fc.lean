import Fc.Kernel
import Fc.Engine
import Fc.Families
import Fc.Groups
import Fc.Case
import Fc.Text
import Fc.Monitors
import Fc.Holds
