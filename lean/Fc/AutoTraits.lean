/-
  Fc/AutoTraits.lean — C18: a model of how rustc derives the auto traits `Send` and `Sync` for the
  struct / enum declarations of the crate.  The declarations themselves are NOT written here: they
  are generated from /repo's macro-expanded source on every run (tools/extract_types.py →
  tools/gen_autotraits.py → FcGen/Types.lean).

  Rules (Rust reference, "auto traits"): a struct / enum is Send (Sync) iff all its field types
  are, after substituting the type arguments; `&T: Send ⇔ T: Sync`, `&T: Sync ⇔ T: Sync`,
  `&mut T: Send ⇔ T: Send`, `&mut T: Sync ⇔ T: Sync`; raw pointers are neither; tuples and arrays
  are structural; the external type constructors that occur follow the table `Rule`.
  Type parameters and associated-type projections of type parameters ("neutral" types, e.g. `Fut`,
  `<Fut as Future>::Output`) are atoms whose auto traits are given by an assignment `ρ`.
-/
namespace Fc
namespace AT

inductive Ty
  | neu (path : List Nat)            -- parameter `path.head` followed by associated-type names
  | app (c : Nat) (args : List Ty)   -- `c < env.length`: declared in the crate; otherwise external
  | tuple (ts : List Ty)
  | array (t : Ty)
  | ref (t : Ty)
  | refMut (t : Ty)
  | ptr
  | prim
  | fnPtr
  | opaque                           -- `dyn Trait`, `impl Trait`, anything the translator cannot classify
  deriving Repr, Inhabited

structure Decl where
  nparams : Nat
  fields  : List Ty
  deriving Repr, Inhabited

/-- how an external type constructor derives its auto traits from those of its arguments -/
inductive Rule
  | structural   -- Vec, Box, Option, ManuallyDrop, MaybeUninit, PhantomData, SmallVec, Slab, BTreeSet, Pin, …
  | always       -- Waker, atomics, FixedBitSet, NonZeroUsize, …
  | arc          -- Arc<T>: Send and Sync iff T: Send + Sync
  | mutex        -- Mutex<T>: Send iff T: Send; Sync iff T: Send
  | cell         -- Cell / RefCell / UnsafeCell: Send iff T: Send; never Sync
  | never        -- Rc, unknown constructors
  deriving DecidableEq, Repr, Inhabited

def Rule.eval (r : Rule) (args : List (Bool × Bool)) : Bool × Bool :=
  match r with
  | .structural => (args.all (·.1), args.all (·.2))
  | .always => (true, true)
  | .arc => (args.all (fun p => p.1 && p.2), args.all (fun p => p.1 && p.2))
  | .mutex => (args.all (·.1), args.all (·.1))
  | .cell => (args.all (·.1), false)
  | .never => (false, false)

/-- substitute the type arguments `σ` for the parameters of a field type -/
def subst (σ : List Ty) : Nat → Ty → Ty
  | 0, t => t
  | f + 1, .neu [] => .opaque
  | f + 1, .neu (i :: ns) =>
    (match σ[i]? with
     | some (.neu p) => .neu (p ++ ns)
     | some t => if ns.isEmpty then t else .opaque   -- projection out of a concrete type: unknown
     | none => .opaque)
  | f + 1, .app c args => .app c (args.map (subst σ f))
  | f + 1, .tuple ts => .tuple (ts.map (subst σ f))
  | f + 1, .array t => .array (subst σ f t)
  | f + 1, .ref t => .ref (subst σ f t)
  | f + 1, .refMut t => .refMut (subst σ f t)
  | _ + 1, t => t

def andAll (l : List (Bool × Bool)) : Bool × Bool := (l.all (·.1), l.all (·.2))

/-- `(is Send, is Sync)` of a type under the assignment `ρ` for the neutral types -/
def auto (env : List Decl) (ext : Nat → Rule) (ρ : List Nat → Bool × Bool) : Nat → Ty → Bool × Bool
  | 0, _ => (false, false)
  | f + 1, .neu p => ρ p
  | f + 1, .app c args =>
    (match env[c]? with
     | some d => andAll (d.fields.map (fun ft => auto env ext ρ f (subst args f ft)))
     | none => (ext c).eval (args.map (auto env ext ρ f)))
  | f + 1, .tuple ts => andAll (ts.map (auto env ext ρ f))
  | f + 1, .array t => auto env ext ρ f t
  | f + 1, .ref t => ((auto env ext ρ f t).2, (auto env ext ρ f t).2)
  | f + 1, .refMut t => auto env ext ρ f t
  | _ + 1, .ptr => (false, false)
  | _ + 1, .prim => (true, true)
  | _ + 1, .fnPtr => (true, true)
  | _ + 1, .opaque => (false, false)

/-- the neutral types (type parameters and their associated-type projections) the verdict on a
    type depends on: what `auto` asks `ρ` about -/
def neutrals (env : List Decl) : Nat → Ty → List (List Nat)
  | 0, _ => []
  | _ + 1, .neu p => [p]
  | f + 1, .app c args =>
    (match env[c]? with
     | some d => (d.fields.map (fun ft => neutrals env f (subst args f ft))).flatten
     | none => (args.map (neutrals env f)).flatten)
  | f + 1, .tuple ts => (ts.map (neutrals env f)).flatten
  | f + 1, .array t => neutrals env f t
  | f + 1, .ref t => neutrals env f t
  | f + 1, .refMut t => neutrals env f t
  | _ + 1, _ => []

/-- the declaration applied to its own parameters -/
def ownTy (env : List Decl) (i : Nat) : Ty :=
  .app i ((List.range (env[i]?.map (·.nparams) |>.getD 0)).map (fun k => .neu [k]))

/-- assignment: the listed neutral types are Send (nothing is known to be Sync) -/
def sendOnly (atoms : List (List Nat)) : List Nat → Bool × Bool := fun p => (atoms.contains p, false)

/-- assignment: the listed neutral types are Sync (nothing is known to be Send) -/
def syncOnly (atoms : List (List Nat)) : List Nat → Bool × Bool := fun p => (false, atoms.contains p)

/-- assignment: the listed neutral types are Send and Sync -/
def both (atoms : List (List Nat)) : List Nat → Bool × Bool := fun p => (atoms.contains p, atoms.contains p)

/-- the verdict the theorems of C18 are about, for declaration `i` of a generated environment:
    Send when every neutral type it depends on is Send; Sync when every one of them is Sync -/
def sendOK (env : List Decl) (ext : Nat → Rule) (fuel i : Nat) : Bool :=
  (auto env ext (sendOnly (neutrals env fuel (ownTy env i))) fuel (ownTy env i)).1

def syncOK (env : List Decl) (ext : Nat → Rule) (fuel i : Nat) : Bool :=
  (auto env ext (syncOnly (neutrals env fuel (ownTy env i))) fuel (ownTy env i)).2

end AT
end Fc
