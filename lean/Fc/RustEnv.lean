/-
  Fc/RustEnv.lean — the environment of a translated `poll` function: the scripted children, the wakers they
  were handed and the event trace (the fields `scripts`, `handed`, `trace` of a `World`; its readiness fields are
  not used — the readiness set lives in the translated struct), and what "polling a child" means for translated code.

  `pollChild wake r env c wk`: child `c` is handed the waker `wk`, consumes one scripted step, and the wakers that step
  invokes act on the SHARED readiness set `r` through `wake` — the crate's own `InlineWaker::wake`, translated from its
  source — while the child's poll runs (the combinator has released the lock, §2.3 of DESIGN.md).  Part of the trusted
  base in the same sense as Fc/RustPrims.lean: it is the meaning given to `future.poll(cx)` on a scripted child.
-/
import Fc.Kernel
import Fc.RustPrims

namespace Fc.Rs
open Fc

variable {R : Type}

/-- invoke a waker: a sub-waker runs the translated `wake` on the shared set, a task waker is logged -/
def fireWk (wake : Nat → R → Option (R × List Nat × Unit)) (r : R) (env : World) : Wk → Option (R × World)
  | .par p => some (r, env.emit (.woke p))
  | .sub i =>
    match wake i r with
    | some (r', ws, _) => some (r', env.emits (ws.map .woke))
    | none => none

def fire (wake : Nat → R → Option (R × List Nat × Unit)) (r : R) (env : World) (c age : Nat) : Option (R × World) :=
  match (env.handed c)[age]? with
  | none => some (r, env.emit (.fired c age none))
  | some wk => fireWk wake r (env.emit (.fired c age (some wk))) wk

def fires (wake : Nat → R → Option (R × List Nat × Unit)) : R → World → List (Nat × Nat) → Option (R × World)
  | r, env, [] => some (r, env)
  | r, env, p :: l =>
    match fire wake r env p.1 p.2 with
    | some (r', env') => fires wake r' env' l
    | none => none

/-- the slot a child is polled in (the `childBegin` event names it): the slot of its sub-waker; a child that is
    handed the caller's own waker sits in the slot of its position -/
def slotOf : Wk → Nat → Nat
  | .sub i, _ => i
  | .par _, c => c

/-- one poll of child `c` with waker `wk` -/
def pollChild (wake : Nat → R → Option (R × List Nat × Unit)) (r : R) (env : World) (c : Nat) (wk : Wk) :
    Option (R × World × Res) :=
  match fires wake r
      { env with scripts := upd env.scripts c (env.scripts c).tail,
                 handed := upd env.handed c (wk :: env.handed c),
                 trace := .childBegin c (slotOf wk c) wk :: env.trace }
      (env.stepOf c).fires with
  | some (r', env') => some (r', env'.emit (.childEnd c (env.resOf c)), env.resOf c)
  | none => none

/-- `Future::poll` of a scripted future: a panic of the child unwinds (`none`), a stream-like answer is ill-typed -/
def pollFut (wake : Nat → R → Option (R × List Nat × Unit)) (r : R) (env : World) (c : Nat) (wk : Wk) :
    Option (R × World × Poll Nat) :=
  match pollChild wake r env c wk with
  | some (r', env', .pend) => some (r', env', .pending)
  | some (r', env', .ready _ v) => some (r', env', .ready v)
  | _ => none

/-- `Future::poll` of a scripted future whose output is a `Result` -/
def pollResFut (wake : Nat → R → Option (R × List Nat × Unit)) (r : R) (env : World) (c : Nat) (wk : Wk) :
    Option (R × World × Poll (Result Nat)) :=
  match pollChild wake r env c wk with
  | some (r', env', .pend) => some (r', env', .pending)
  | some (r', env', .ready true v) => some (r', env', .ready (.ok v))
  | some (r', env', .ready false e) => some (r', env', .ready (.err e))
  | _ => none

/-- `Stream::poll_next` of a scripted stream -/
def pollStream (wake : Nat → R → Option (R × List Nat × Unit)) (r : R) (env : World) (c : Nat) (wk : Wk) :
    Option (R × World × Poll (Option Nat)) :=
  match pollChild wake r env c wk with
  | some (r', env', .pend) => some (r', env', .pending)
  | some (r', env', .item v) => some (r', env', .ready (some v))
  | some (r', env', .fin) => some (r', env', .ready none)
  | _ => none

end Fc.Rs
