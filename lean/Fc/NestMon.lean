/-
  Fc/NestMon.lean — poll discipline (C03) and exactly-once ownership (C02) for one level of
  nesting, read off the component traces of a nest (`Fc/Nest.lean`) at an operation boundary.

  Nothing new is modelled here: the definitions below are the executable statements of the nest
  theorems `FcProps/C03nest.lean` / `FcProps/C02nest.lean`.
-/
import Fc.Nest

namespace Fc

/-- does the family produce a stream (its polls answer `some` / `none`) or a future (`ready`)? -/
def Fam.yieldsStream : Fam → Bool
  | .merge | .zip | .chain | .waitS | .strGroup => true
  | _ => false

/-- the outcomes a combinator of a given kind can produce at all: a future never yields an item or
    ends, a stream never resolves (the counterpart of `Res.fits` one level up) -/
def Outcome.fits (stream : Bool) : Outcome → Bool
  | .pending | .panicked | .misuse => true
  | .ready _ _ => !stream
  | .some _ _ | .none => stream

namespace Nest
open Mon

/-- number of top-level polls an instance has received -/
def cntPB : List Ev → Nat
  | [] => 0
  | .pollBegin _ :: t => cntPB t + 1
  | _ :: t => cntPB t

/-- number of polls of child `c` -/
def cntCB : List Ev → Nat → Nat
  | [], _ => 0
  | .childBegin c' _ _ :: t, c => cntCB t c + (if c' = c then 1 else 0)
  | _ :: t, c => cntCB t c

/-- number of completed drops of an instance -/
def cntDE : List Ev → Nat
  | [] => 0
  | .dropEnd :: t => cntDE t + 1
  | _ :: t => cntDE t

/-- C03 one level up, on an instance's OWN trace: it is never polled (`pollBegin`) after one of
    its polls produced the final result (`Ready`, or `None` for a stream), nor after it was
    dropped.  (`holds_C03` says this about the children of an instance; for a nested child the
    parent's `childBegin c` and the inner instance's `pollBegin` are the same moment.) -/
def pollsOk : List Ev → Bool
  | [] => true
  | .pollBegin _ :: t => pollsOk t && !finalSeen false t && alive t
  | _ :: t => pollsOk t

/-- the nested child `c` is a combinator over a fixed set of children whose kind (future / stream)
    is the kind the outer family expects of child `c` -/
def famOkAt (nc : NCase) (c : Nat) : Bool :=
  match nc.inner c with
  | none => true
  | some (fam, _) => !fam.isGroup && (fam.yieldsStream == nc.outer.childIsStream c)

/-- every scripted step of a list has the kind of its child -/
def stepsFit (stream : Bool) (l : List Step) : Bool := l.all (fun st => st.res.fits stream)

/-- `Case.kindOk` for a nest, as a decidable predicate: the outer family and the inner families
    are combinators over a fixed set of children; a nested child answers with the kind of its inner
    family, which is the kind the outer family expects of that child; every scripted step of a
    plain child `c < n` and of a leaf `g < k` of a nested child has the kind of that child / leaf -/
def kindOk (nc : NCase) : Bool :=
  !nc.outer.isGroup &&
  (List.range nc.n).all (fun c =>
    match nc.inner c with
    | none => stepsFit (nc.outer.childIsStream c) (nc.scripts c)
    | some (fam, k) =>
      famOkAt nc c &&
      (List.range k).all (fun g => stepsFit (fam.childIsStream g) (nc.scripts (leafId c g))))

/-- the link between the two levels for nested child `c`, at an operation boundary -/
def linkC03 (s : St) (c : Nat) : Bool :=
  let to := s.out.w.trace
  let ti := (s.inn c).w.trace
  -- the inner instance is polled exactly when the outer instance polls child `c`
  cntPB ti == s.polls c && cntCB to c == s.polls c &&
  -- … never after its own final result or drop
  pollsOk ti &&
  -- the nested child is marked released iff the outer instance released it (or was dropped itself)
  (s.gone c == (gone to c || !alive to)) &&
  -- … and exactly then the inner instance has been dropped
  (alive ti == !s.gone c) &&
  -- the inner instance has produced its final result iff child `c` is finished for the outer one
  (finalSeen false ti == finished to c)

/-- C03 of a nest at an operation boundary -/
def c03At (nc : NCase) (s : St) : Bool :=
  holds_C03 false s.out.w.trace &&
  (List.range nc.n).all (fun c =>
    !(nc.inner c).isSome || (holds_C03 false (s.inn c).w.trace && linkC03 s c))

/-- `c03At` at every operation boundary of the history -/
def holdsC03Nest (nc : NCase) : Bool :=
  (List.range (nc.ops.length + 1)).all (fun k =>
    c03At nc ((nc.ops.take k).foldl (step nc) (init nc)))

/-! ### C02 — exactly-once ownership through one level of nesting -/

def isDropOp : Op → Bool
  | .drop => true
  | _ => false

/-- the history drops the nest at most once (a Rust value is dropped once) -/
def dropsOk (nc : NCase) : Bool := decide ((nc.ops.filter isDropOp).length ≤ 1)

def isWait : Fam → Bool
  | .waitF | .waitS => true
  | _ => false

/-- `wait_until` (at either level) has its two children: the deadline and the inner future / stream -/
def waitOk (nc : NCase) : Bool :=
  (!isWait nc.outer || nc.n == 2) &&
  (List.range nc.n).all (fun c =>
    match nc.inner c with
    | none => true
    | some (fam, k) => !isWait fam || k == 2)

/-- the ownership link for nested child `c` at an operation boundary -/
def linkC02 (s : St) (c : Nat) : Bool :=
  let to := s.out.w.trace
  let ti := (s.inn c).w.trace
  -- the nest marks `c` released iff the outer instance dropped child `c` (`childDropped c`)
  (s.gone c == gone to c) &&
  -- … iff the inner instance has performed its drop
  (dropCompleted ti == s.gone c) &&
  -- … exactly once
  (cntDE ti == if s.gone c then 1 else 0)

/-- C02 of a nest at an operation boundary: the flat monitor on the outer trace (plain and nested
    children are the outer instance's children), on every inner trace (the leaves), and the link -/
def c02At (nc : NCase) (s : St) : Bool :=
  holds_C02 true nc.n s.out.w.trace &&
  (List.range nc.n).all (fun c =>
    match nc.inner c with
    | none => true
    | some (_, k) => holds_C02 true k (s.inn c).w.trace && linkC02 s c)

/-- `c02At` at every operation boundary of the history -/
def holdsC02Nest (nc : NCase) : Bool :=
  (List.range (nc.ops.length + 1)).all (fun k =>
    c02At nc ((nc.ops.take k).foldl (step nc) (init nc)))

end Nest
end Fc
