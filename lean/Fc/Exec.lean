/-
  Fc/Exec.lean — a wake-only executor driving a combinator over a fixed set of children, and a
  benign environment: the executor polls the combinator (with a FRESH task waker each time) only if
  the task has been woken since the previous poll began (or was never polled); otherwise the
  environment lets one waiting child make progress: it invokes the waker that child was handed in
  its most recent poll.  This is the setting of C01's "Consequently …" sentence.
-/
import Fc.Monitors
import Fc.MonFun

namespace Fc
namespace Exec
open Mon

/-- is the latest outcome final (nothing more to poll for)? -/
def finalOut : Option Outcome → Bool
  | some (.ready _ _) | some .none | some .panicked | some .misuse => true
  | _ => false

/-- should the executor poll now?  Never polled yet, or woken since the latest poll began, or the
    latest poll yielded an item (a stream consumer asks for the next one) -/
def shouldPoll (t : List Ev) : Bool :=
  match lastOut t with
  | none => true
  | some (.some _ _) => true
  | _ => wokeSince t

/-- number of top-level polls so far -/
def pollCount : List Ev → Nat
  | [] => 0
  | .pollBegin _ :: t => pollCount t + 1
  | _ :: t => pollCount t

/-- the first child (in index order) that is waiting: its latest answer was Pending and it has a
    scripted step left -/
def firstWaiting (n : Nat) (e : Eng Fix) : Option Nat :=
  (List.range n).find? (fun c => lastRes e.w.trace c == some .pend && !(e.w.scripts c).isEmpty)

/-- one round of executor + environment; `none` = nothing left to do (final outcome, or stuck:
    not woken and no child can be prodded) -/
def round (P : Policy Fix) (n : Nat) (e : Eng Fix) : Option (Eng Fix) :=
  if finalOut (lastOut e.w.trace) then none
  else if shouldPoll e.w.trace then some (Eng.poll P e (pollCount e.w.trace + 1))
  else match firstWaiting n e with
    | some c => some (e.fire c 0)
    | none => none

/-- run up to `fuel` rounds -/
def runFor (P : Policy Fix) (n : Nat) : Nat → Eng Fix → Eng Fix
  | 0, e => e
  | k + 1, e => match round P n e with
    | some e' => runFor P n k e'
    | none => e

/-- total number of scripted steps the children have left -/
def stepsLeft (n : Nat) (e : Eng Fix) : Nat := ((List.range n).map (fun c => (e.w.scripts c).length)).sum

/-- a well-behaved future: some Pending steps (with arbitrary in-poll wake-ups), then it resolves -/
def futureScript (s : List Step) : Bool :=
  match s.reverse with
  | [] => false
  | last :: init => (match last.res with | .ready _ _ => true | _ => false) && init.all (fun st => st.res == .pend)

end Exec
end Fc
