/-
  Fc/ExecGMix.lean — the wake-only executor of Fc/ExecGAny.lean (FutureGroup / StreamGroup, arbitrary
  schedule `pick`, busy environment `pre` / `post`) with a consumer that changes the membership of
  the group WHILE it is being drained: between two rounds of the executor — other members still
  pending, wake-ups outstanding, stale wakers of former members around — the consumer may `insert`,
  `extend`, `reserve` or `remove`, and then polls the group.

  The consumer's plan is a FINITE list of entries `(d, ops)`, consumed in order:

      `(d, ops)` — after at most `d` further ordinary rounds (`ExecGAny.roundB`: poll if woken /
                   never polled / an item was yielded, otherwise the environment prods a waiting
                   member and fires whatever other wakers it likes) the consumer performs the
                   membership operations `ops` (`GEng.step`, in order) and, in the same round, polls
                   the group unconditionally with a fresh task waker (`ExecGAny.restart` — a
                   membership operation logs no `pollEnd`, so the wake-only rule alone need not
                   poll; cf. `ExecGAny.runRefillB`).  If the executor has nothing left to do before
                   the `d` rounds are over (`roundB = none`: the group has drained, latest outcome
                   `None`), the entry is performed at once.

  Why delays and not absolute round numbers (`ops : Nat → Eng Grp → List Op`, `ops r e = []` for
  `r ≥ R`).  (1) No side condition on the plan: every list of pairs is a plan (absolute round numbers
  would have to be increasing).  (2) The bound of the liveness theorem does not depend on WHEN the
  entries are due, only on how many there are: rounds in which the executor has nothing to do do not
  change the state (`roundB = none`), so waiting through them is skipped instead of being counted —
  with absolute round numbers the bound would have to contain the last planned round number, and a
  drained group waiting for a far-away entry would idle for arbitrarily many rounds.  Every run with
  absolute round numbers `r₁ < r₂ < …` is the run of the plan with the delays `r₁, r₂ - r₁ - 1, …`
  under a schedule whose round numbers are shifted by the idle rounds (`pick`, `pre`, `post` are
  universally quantified in the theorems).  (3) The plan does not depend on the state, so the
  freshness hypothesis of the theorems (`Case.insertsFresh`-style: no id inserted twice) is a
  decidable property of the plan.

  An entry with `ops = []` is a spurious poll of the consumer; it is allowed (and harmless).  Every
  round of `runMix` — an ordinary round, or the performance of an entry — uses up one unit of fuel
  and one round number.  `runMix` returns the state and the part of the plan not yet performed.
  With the empty plan it is `ExecGAny.runForB`.
-/
import Fc.ExecGAny

namespace Fc

/-- the operations that change the membership (or the capacity) of a group -/
def Op.isMembership : Op → Bool
  | .insert _ | .extend _ | .reserve _ | .remove _ => true
  | _ => false

namespace ExecGMix
open Mon

/-- the consumer's plan: `(delay, membership operations)`, consumed in order -/
abbrev Plan := List (Nat × List Op)

/-- all operations of a plan, in order -/
def Plan.ops (pl : Plan) : List Op := pl.flatMap (fun en => en.2)

/-- the consumer performs `ops` and polls the group (fresh task waker), whatever the latest outcome -/
def perform (e : Eng Grp) (ops : List Op) : Eng Grp := ExecGAny.restart (ops.foldl GEng.step e)

/-- up to `fuel` rounds from round number `r`; answers the state and the rest of the plan -/
def runMix (pick : Nat → Eng Grp → Nat) (pre post : Nat → Eng Grp → List (Nat × Nat)) :
    Nat → Nat → Plan → Eng Grp → Eng Grp × Plan
  | 0, _, pl, e => (e, pl)
  | k + 1, r, [], e =>
    match ExecGAny.roundB pick pre post r e with
    | some e' => runMix pick pre post k (r + 1) [] e'
    | none => (e, [])
  | k + 1, r, (0, ops) :: pl, e => runMix pick pre post k (r + 1) pl (perform e ops)
  | k + 1, r, (d + 1, ops) :: pl, e =>
    match ExecGAny.roundB pick pre post r e with
    | some e' => runMix pick pre post k (r + 1) ((d, ops) :: pl) e'
    | none => runMix pick pre post k (r + 1) pl (perform e ops)

end ExecGMix
end Fc
