/-
  Fc/ExecGAny.lean — the wake-only executor of Fc/ExecG.lean (FutureGroup / StreamGroup) with an
  ARBITRARY environment schedule, and a restart after a refill.

  In Fc/ExecG.lean the environment, when the task has not been woken, prods the FIRST waiting member
  in key order.  Here the environment is a parameter, exactly as in Fc/ExecAny.lean for the families
  with a fixed set of children:

    * `pick : Nat → Eng Grp → Nat` — round number and current state ↦ the member id the environment
      would like to let progress next.  If that id is a CURRENT member of the group (`members`: the
      ids sitting in the slots of the key set) that is waiting (`isWaiting`: latest answer `Pending`
      and a scripted step left — the test of `ExecG.firstWaiting`), it is prodded (`e.fire c 0`: the
      waker it was handed in its most recent poll); otherwise the environment falls back to
      `ExecG.firstWaiting`.  A schedule cannot refuse to make progress — fairness is not the point,
      safety of ANY choice is.
    * `round` / `runFor` — the executor of Fc/ExecG.lean with that choice; `runFor` threads the round
      number (fuel, current round number, state).

  The busy environment (`roundB` / `runForB`) additionally fires, in the same environment round,
  arbitrary further wakers: `pre r e` before and `post r e` after the prod, each a list of
  `(id, age)` pairs as for `World.fire` (age 0 = the waker handed in the id's most recent poll, age
  `a` = the one handed `a` polls earlier: a STALE one).  The ids are arbitrary: members, ids that
  were never inserted, ids of members that have resolved / ended and left the group (whose slot may
  meanwhile hold another member).  `round` is `roundB` with both lists empty.

  Restart after a refill.  `Exec.finalOut (some .none) = true`: once the group's stream has ended
  (`Poll::Ready(None)`) the executor stops.  A real consumer may insert further members into the
  drained group and poll it again — an empty group returns `None`, a later `insert` makes it pollable
  again (future_group.rs / stream_group.rs `poll_next_inner`; the model: `group.pre` answers `None`
  only while `len = 0`).  An insert does not log a `pollEnd`, so after the refill the latest outcome
  is still `None` and `round` would not poll.  `runRefillB` therefore models the consumer's decision
  to resume: its FIRST round polls the group unconditionally (fresh task waker, as every poll of the
  executor), the remaining rounds are those of `runForB`.  It is the only difference; in particular
  the stale wakers of the previous occupants of reused slots remain in the World and may be fired by
  the busy environment.
-/
import Fc.ExecG

namespace Fc
namespace ExecGAny
open Mon

/-- the ids of the current members, in key order (the list `ExecG.firstWaiting` searches) -/
def members (e : Eng Grp) : List Nat := e.s.keys.filterMap e.s.member

/-- is id `c` waiting: its latest answer was Pending and it has a scripted step left
    (the test used by `ExecG.firstWaiting`) -/
def isWaiting (e : Eng Grp) (c : Nat) : Bool :=
  lastRes e.w.trace c == some .pend && !(e.w.scripts c).isEmpty

/-- the member the environment prods: the schedule's pick if that is a current member that is
    waiting, otherwise the first waiting member; `none` if no member is waiting -/
def choose (pick : Nat → Eng Grp → Nat) (r : Nat) (e : Eng Grp) : Option Nat :=
  if (members e).contains (pick r e) = true ∧ isWaiting e (pick r e) = true then some (pick r e)
  else ExecG.firstWaiting e

/-- one round of executor + environment under the schedule `pick`; `r` is the round number;
    `none` = nothing left to do (final outcome, or stuck: not woken and no member can be prodded) -/
def round (pick : Nat → Eng Grp → Nat) (r : Nat) (e : Eng Grp) : Option (Eng Grp) :=
  if Exec.finalOut (lastOut e.w.trace) then none
  else if Exec.shouldPoll e.w.trace then some (Eng.poll group e (Exec.pollCount e.w.trace + 1))
  else match choose pick r e with
    | some c => some (e.fire c 0)
    | none => none

/-- run up to `fuel` rounds, starting with round number `r` -/
def runFor (pick : Nat → Eng Grp → Nat) : Nat → Nat → Eng Grp → Eng Grp
  | 0, _, e => e
  | k + 1, r, e => match round pick r e with
    | some e' => runFor pick k (r + 1) e'
    | none => e

/-! ### the busy environment: several wakers, also stale ones, in one environment round -/

/-- invoke a list of wakers, `(id, age)` as for `World.fire`, in order -/
def fires (e : Eng Grp) : List (Nat × Nat) → Eng Grp
  | [] => e
  | p :: l => fires (e.fire p.1 p.2) l

/-- one round under the schedule `pick` with the extra wake-ups `pre` (before the prod) and `post`
    (after it); the member to prod is chosen in the state the round starts from -/
def roundB (pick : Nat → Eng Grp → Nat) (pre post : Nat → Eng Grp → List (Nat × Nat)) (r : Nat)
    (e : Eng Grp) : Option (Eng Grp) :=
  if Exec.finalOut (lastOut e.w.trace) then none
  else if Exec.shouldPoll e.w.trace then some (Eng.poll group e (Exec.pollCount e.w.trace + 1))
  else match choose pick r e with
    | some c => some (fires ((fires e (pre r e)).fire c 0) (post r e))
    | none => none

def runForB (pick : Nat → Eng Grp → Nat) (pre post : Nat → Eng Grp → List (Nat × Nat)) :
    Nat → Nat → Eng Grp → Eng Grp
  | 0, _, e => e
  | k + 1, r, e => match roundB pick pre post r e with
    | some e' => runForB pick pre post k (r + 1) e'
    | none => e

/-! ### resuming a drained group after a refill -/

/-- the consumer polls again (fresh task waker), whatever the latest outcome was -/
def restart (e : Eng Grp) : Eng Grp := Eng.poll group e (Exec.pollCount e.w.trace + 1)

/-- up to `fuel` rounds, the first of which is the unconditional poll -/
def runRefillB (pick : Nat → Eng Grp → Nat) (pre post : Nat → Eng Grp → List (Nat × Nat)) :
    Nat → Nat → Eng Grp → Eng Grp
  | 0, _, e => e
  | k + 1, r, e => runForB pick pre post k (r + 1) (restart e)

/-- the same without extra wake-ups -/
def runRefill (pick : Nat → Eng Grp → Nat) : Nat → Nat → Eng Grp → Eng Grp
  | 0, _, e => e
  | k + 1, r, e => runFor pick k (r + 1) (restart e)

end ExecGAny
end Fc
