/-
  Fc/CoMon.lean — C13, C14, C15 as decidable predicates over concurrent-stream traces
  (`List Co.CoEv`, NEWEST FIRST).
-/
import Fc.CoSpec

namespace Fc
namespace Co

/-! ### observations -/

/-- how often closure `stage` was called for item `j` -/
def calls : List CoEv → Nat → Nat → Nat
  | [], _, _ => 0
  | .call s' j' _ _ :: t, s, j => calls t s j + (if s' = s ∧ j' = j then 1 else 0)
  | _ :: t, s, j => calls t s j

/-- the call that created work future `k` -/
def createdBy : List CoEv → Nat → Option (Nat × Nat)
  | [], _ => none
  | .call s j _ k' :: t, k => if k' = k then some (s, j) else createdBy t k
  | _ :: t, k => createdBy t k

/-- all work futures created so far, newest first -/
def created : List CoEv → List Nat
  | [] => []
  | .call _ _ _ k :: t => k :: created t
  | _ :: t => created t

/-- the result work future `k` resolved to -/
def resultOf : List CoEv → Nat → Option (Bool × Nat)
  | [], _ => none
  | .work k' (.ready ok v) :: t, k => if k' = k then some (ok, v) else resultOf t k
  | _ :: t, k => resultOf t k

def droppedW : List CoEv → Nat → Bool
  | [], _ => false
  | .workDrop k' :: t, k => k' = k || droppedW t k
  | _ :: t, k => droppedW t k

/-- items the source has handed over so far -/
def takenItems : List CoEv → Nat
  | [] => 0
  | .src (.item _) :: t => takenItems t + 1
  | _ :: t => takenItems t

def srcEnded : List CoEv → Bool
  | [] => false
  | .src .fin :: _ => true
  | _ :: t => srcEnded t

/-- errors work futures have returned so far, newest first -/
def errsW : List CoEv → List Nat
  | [] => []
  | .work _ (.ready false v) :: t => v :: errsW t
  | _ :: t => errsW t

/-- work futures of the terminal closure that exist and have not completed -/
def liveTerm (c : Cfg) (t : List CoEv) : Nat :=
  ((created t).filter (fun k =>
    (match createdBy t k with | some (s, _) => s == c.maps | none => false) &&
      (resultOf t k).isNone && !droppedW t k)).length

/-- the work future closure `stage` returned for item `j` -/
def futOf : List CoEv → Nat → Nat → Option Nat
  | [], _, _ => none
  | .call s' j' _ k :: t, s, j => if s' = s ∧ j' = j then some k else futOf t s j
  | _ :: t, s, j => futOf t s j

/-- item `j` went through closure `stage` exactly once and the future it returned resolved -/
def stageDone (t : List CoEv) (stage j : Nat) : Bool :=
  calls t stage j == 1 &&
    (match futOf t stage j with
     | some k => (resultOf t k).isSome
     | none => false)

/-- every item taken from the source went through every closure stage, once -/
def allProcessed (c : Cfg) (t : List CoEv) : Bool :=
  (List.range (takenItems t)).all (fun j => (List.range c.stages).all (fun s => stageDone t s j))

def allDropped (t : List CoEv) : Bool := (created t).all (fun k => droppedW t k)

/-- the source was drained as far as the adapters allow: it ended, or some `take` is full -/
def drained (c : Cfg) (t : List CoEv) : Bool := srcEnded t || c.breakAt (takenItems t)

/-! ### C13 — for_each: exactly once, structured, within the limit -/

def holds_C13 (c : Cfg) : List CoEv → Bool
  | [] => true
  | .call stage j idx k :: t =>
    holds_C13 c t && calls t stage j == 0 &&
      (match c.limit with
       | some l => decide (liveTerm c (.call stage j idx k :: t) ≤ l)
       | none => true)
  | .topEnd .unit :: t => holds_C13 c t && allProcessed c t && drained c t
  | .dropEnd :: t => holds_C13 c t && allDropped t
  | _ :: t => holds_C13 c t

/-! ### C14 — fallible operations never swallow an error and cancel on it -/

def holds_C14 (c : Cfg) : List CoEv → Bool
  | [] => true
  | .topEnd .ok :: t => holds_C14 c t && errsW t == [] && allProcessed c t && drained c t
  | .topEnd (.resOk _) :: t => holds_C14 c t && errsW t == [] && allProcessed c t && drained c t
  | .topEnd (.err e) :: t => holds_C14 c t && (errsW t).contains e
  | .topEnd (.resErr e) :: t => holds_C14 c t && (errsW t).contains e
  | .topEnd .pending :: t => holds_C14 c t && errsW t == []
  | .src _ :: t => holds_C14 c t && errsW t == []
  | .work _ _ :: t => holds_C14 c t && errsW t == []
  | .call _ _ _ _ :: t => holds_C14 c t && errsW t == []
  | .dropEnd :: t => holds_C14 c t && allDropped t
  | _ :: t => holds_C14 c t

/-! ### C15 — collect = multiset, enumerate = source index, take = exact count -/

def holds_C15 (c : Cfg) : List CoEv → Bool
  | [] => true
  | .src (.item v) :: t =>
    -- an item is taken only while every `take` still has room (none at all for `take(0)`)
    holds_C15 c t && c.takes.all (fun n => decide (takenItems t < n))
  | .call stage j idx _ :: t =>
    -- every closure sees item `j` with `j` as each enumerate index, once
    holds_C15 c t && calls t stage j == 0 && idx == c.idxAt stage j && decide (j < takenItems t)
  | .topEnd (.vec items) :: t =>
    holds_C15 c t && allProcessed c t && drained c t &&
      items.isPerm ((List.range (takenItems t)).map (fun j => (j, c.idxAt c.stages j)))
  | .topEnd (.resOk items) :: t =>
    holds_C15 c t && allProcessed c t && drained c t &&
      items.isPerm ((List.range (takenItems t)).map (fun j => (j, c.idxAt c.stages j)))
  | .topEnd .unit :: t => holds_C15 c t && drained c t
  | .topEnd .ok :: t => holds_C15 c t && drained c t
  | _ :: t => holds_C15 c t

end Co
end Fc
