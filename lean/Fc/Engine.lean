/-
  Fc/Engine.lean — the poll skeleton every combinator of the crate instantiates.

  All `poll` / `poll_next` functions of join, try_join, race, race_ok, merge, zip, chain,
  wait_until, FutureGroup and StreamGroup have the same shape:

      [pre-check]  set_waker  [any_ready pre-check]
      for slot in order { [any_ready check]  gate(slot)  poll child  handle result  [exit] }
      finish

  A `Policy` fixes the family-specific pieces; `Fc/Families.lean` and `Fc/Groups.lean` give
  one policy per family, each transcribed from the Rust source.
-/
import Fc.Kernel

namespace Fc

/-- what a family does with one child result -/
structure HRes (σ : Type) where
  s    : σ
  evs  : List Ev            -- ownership events (children / values dropped), in program order
  kop  : KOp                -- re-arming of readiness bits
  exit : Option Outcome     -- `some o`: return `o` from this poll

structure Policy (σ : Type) where
  /-- decided before `set_waker`: completed combinators (misuse), empty groups, arity 0 -/
  pre        : σ → Option Outcome
  /-- the slots this poll scans, in order -/
  order      : σ → List Nat
  /-- bookkeeping at the start of a poll (indexer offset, per-poll counters) -/
  start      : σ → σ
  /-- `if <cond> && !any_ready { return Pending }` in front of the loop -/
  preAny     : σ → Bool
  /-- `if !any_ready { return Pending }` at the top of every iteration -/
  loopAny    : Bool
  /-- `true`: `!clear_ready(i) || <state>` (bit cleared first); `false`: `<state> && clear_ready(i)` -/
  clearFirst : Bool
  /-- the state test that allows slot `i` to be polled -/
  eligible   : σ → Nat → Bool
  /-- the child living in slot `i` -/
  child      : σ → Nat → Nat
  handle     : σ → Nat → Res → HRes σ
  /-- after a scan that was not left early -/
  finish     : σ → HRes σ
  /-- state after a child's poll unwound through the combinator -/
  onPanic    : σ → σ
  /-- what the unwinding releases on its way out of `poll` -/
  panicEvs   : σ → List Ev
  /-- drop glue: `PinnedDrop` followed by the fields -/
  dropEvs    : σ → List Ev
  afterDrop  : σ → σ

structure Eng (σ : Type) where
  w : World
  s : σ

namespace Eng
variable {σ : Type}

def emit (e : Eng σ) (ev : Ev) : Eng σ := { e with w := e.w.emit ev }

def applyH (e : Eng σ) (h : HRes σ) : Eng σ :=
  { w := (e.w.emits h.evs).kop h.kop, s := h.s }

/-- the readiness side of the gate in front of a child poll -/
def gateW (P : Policy σ) (e : Eng σ) (i : Nat) : World :=
  if P.clearFirst || P.eligible e.s i then e.w.clearReady i else e.w

/-- does the gate let slot `i` through? -/
def gateGo (P : Policy σ) (e : Eng σ) (i : Nat) : Bool :=
  P.eligible e.s i && e.w.isSet i

/-- one loop iteration for slot `i` -/
def visit (P : Policy σ) (e : Eng σ) (i : Nat) : Eng σ × Option Outcome :=
  if P.loopAny && !e.w.anyReady then (e, some .pending)
  else if !(gateGo P e i) then ({ e with w := gateW P e i }, none)
  else if e.w.resOf (P.child e.s i) = .panic then
    ({ w := ((gateW P e i).pollChild (P.child e.s i) i).emits (P.panicEvs e.s), s := P.onPanic e.s },
      some .panicked)
  else
    (applyH { e with w := (gateW P e i).pollChild (P.child e.s i) i }
        (P.handle e.s i (e.w.resOf (P.child e.s i))),
      (P.handle e.s i (e.w.resOf (P.child e.s i))).exit)

/-- the loop: stop at the first iteration that returns -/
def scan (P : Policy σ) : List Nat → Eng σ → Eng σ × Option Outcome
  | [], e => (e, none)
  | i :: rest, e =>
    match (visit P e i).2 with
    | some o => ((visit P e i).1, some o)
    | none => scan P rest (visit P e i).1

/-- leaving the loop: either an iteration returned, or the code after the loop decides -/
def close (P : Policy σ) (r : Eng σ × Option Outcome) : Eng σ :=
  match r.2 with
  | some o => r.1.emit (.pollEnd o)
  | none =>
    (r.1.applyH (P.finish r.1.s)).emit (.pollEnd ((P.finish r.1.s).exit.getD .pending))

/-- everything after `set_waker` -/
def body (P : Policy σ) (e : Eng σ) : Eng σ :=
  if P.preAny (P.start e.s) && !e.w.anyReady then
    ({ e with s := P.start e.s }).emit (.pollEnd .pending)
  else
    close P (scan P (P.order e.s) { e with s := P.start e.s })

/-- one top-level `poll` / `poll_next` with task waker `wid` -/
def poll (P : Policy σ) (e : Eng σ) (wid : Nat) : Eng σ :=
  match P.pre e.s with
  | some o => (e.emit (.pollBegin wid)).emit (.pollEnd o)
  | none => body P { e with w := (e.w.emit (.pollBegin wid)).setWaker wid }

/-- a wake-up between polls -/
def fire (e : Eng σ) (c age : Nat) : Eng σ := { e with w := e.w.fire c age }

/-- dropping the combinator -/
def drop (P : Policy σ) (e : Eng σ) : Eng σ :=
  { w := ((e.w.emit .dropBegin).emits (P.dropEvs e.s)).emit .dropEnd, s := P.afterDrop e.s }

end Eng

/-- operations on a combinator with a fixed set of children -/
inductive Op
  | poll (w : Nat)
  | fire (c age : Nat)
  | drop
  -- groups only
  | insert (c : Nat)
  | remove (j : Nat)
  | reserve (k : Nat)
  | extend (cs : List Nat)
  | qLen | qIsEmpty | qContains (j : Nat) | qCapacity
  deriving Repr

end Fc
