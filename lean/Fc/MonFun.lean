/-
  Fc/MonFun.lean — the functional properties (what a combinator returns, when, and which children
  it touches) as decidable predicates over event traces (NEWEST FIRST, like Fc/Monitors.lean).

  Everything a predicate knows about the children comes from the trace itself: `childEnd c r`
  is what child `c` answered; `pollEnd o` is what the combinator answered.
-/
import Fc.Monitors

namespace Fc
namespace Mon

/-- has an earlier top-level poll unwound? -/
def panickedSeen : List Ev → Bool
  | [] => false
  | .pollEnd .panicked :: _ => true
  | _ :: t => panickedSeen t

/-- the combinator is used up: it returned its final result, unwound, or was dropped.  Polling
    it again is caller misuse; the model answers `misuse`, and only then. -/
def spent (group : Bool) (t : List Ev) : Bool := finalSeen group t || !alive t || panickedSeen t

/-- the value child `c` resolved to (a future's output) -/
def resolvedVal (t : List Ev) (c : Nat) : Option Nat :=
  match lastRes t c with
  | some (.ready _ v) => some v
  | _ => none

/-- the events since the most recent `pollBegin` (newest first) -/
def sincePoll : List Ev → List Ev
  | [] => []
  | .pollBegin _ :: _ => []
  | e :: t => e :: sincePoll t

/-- results of all child polls, newest first -/
def childResults : List Ev → List (Nat × Res)
  | [] => []
  | .childEnd c r :: t => (c, r) :: childResults t
  | _ :: t => childResults t

/-! ### C04 — join -/

def allResolved (n : Nat) (t : List Ev) : Bool :=
  (List.range n).all (fun c => (resolvedVal t c).isSome)

/-- verdict on the outcome `o` of a poll, `t` = the trace before its `pollEnd` -/
def c04At (n : Nat) (t : List Ev) : Outcome → Bool
  | .ready ok vals =>
    ok && allResolved n t && vals == (List.range n).map (fun c => (resolvedVal t c).getD 0)
  | .pending => !allResolved n t
  | .panicked => true
  | .misuse => spent false t
  | _ => false

def holds_C04 (n : Nat) : List Ev → Bool
  | [] => true
  | .pollEnd o :: t => holds_C04 n t && c04At n t o
  | _ :: t => holds_C04 n t

/-! ### C05 — try_join -/

/-- the value child `c` resolved to with `Ok` -/
def okVal (t : List Ev) (c : Nat) : Option Nat :=
  match lastRes t c with
  | some (.ready true v) => some v
  | _ => none

/-- every error any child returned so far, newest first -/
def errs : List Ev → List Nat
  | [] => []
  | .childEnd _ (.ready false v) :: t => v :: errs t
  | _ :: t => errs t

def allOk (n : Nat) (t : List Ev) : Bool := (List.range n).all (fun c => (okVal t c).isSome)

def c05At (n : Nat) (t : List Ev) : Outcome → Bool
  | .ready true vals =>
    errs t == [] && allOk n t && vals == (List.range n).map (fun c => (okVal t c).getD 0)
  | .ready false vals => errs t == vals && vals.length == 1 && errs (sincePoll t) == vals
  | .pending => errs t == [] && !allOk n t
  | .panicked => true
  | .misuse => spent false t
  | _ => false

def holds_C05 (n : Nat) : List Ev → Bool
  | [] => true
  | .pollEnd o :: t => holds_C05 n t && c05At n t o
  | .childBegin _ _ _ :: t => holds_C05 n t && errs t == []
  | _ :: t => holds_C05 n t

/-! ### C06 — race -/

/-- every value any child resolved to so far, newest first -/
def readies : List Ev → List Nat
  | [] => []
  | .childEnd _ (.ready _ v) :: t => v :: readies t
  | _ :: t => readies t

def c06At (t : List Ev) : Outcome → Bool
  | .ready ok vals => ok && readies t == vals && vals.length == 1 && readies (sincePoll t) == vals
  | .pending => readies t == []
  | .panicked => true
  | .misuse => spent false t
  | _ => false

def holds_C06 : List Ev → Bool
  | [] => true
  | .pollEnd o :: t => holds_C06 t && c06At t o
  | .childBegin _ _ _ :: t => holds_C06 t && readies t == []
  | .childDropped _ :: t => holds_C06 t && !alive t
  | _ :: t => holds_C06 t

/-! ### C07 — race_ok -/

def oks : List Ev → List Nat
  | [] => []
  | .childEnd _ (.ready true v) :: t => v :: oks t
  | _ :: t => oks t

/-- the error child `c` failed with -/
def errVal (t : List Ev) (c : Nat) : Option Nat :=
  match lastRes t c with
  | some (.ready false v) => some v
  | _ => none

def allErr (n : Nat) (t : List Ev) : Bool := (List.range n).all (fun c => (errVal t c).isSome)

def c07At (n : Nat) (t : List Ev) : Outcome → Bool
  | .ready true vals => oks t == vals && vals.length == 1 && oks (sincePoll t) == vals
  | .ready false vals =>
    oks t == [] && allErr n t && vals == (List.range n).map (fun c => (errVal t c).getD 0) &&
      (n == 0 || errs (sincePoll t) != [])
  | .pending => oks t == [] && !allErr n t
  | .panicked => true
  | .misuse => spent false t
  | _ => false

def holds_C07 (n : Nat) : List Ev → Bool
  | [] => true
  | .pollEnd o :: t => holds_C07 n t && c07At n t o
  | .childBegin c _ _ :: t => holds_C07 n t && oks t == [] && (errVal t c).isNone
  | _ :: t => holds_C07 n t

/-! ### C19 — wait_until (child 0 = deadline, child 1 = inner future / stream) -/

def deadlineDone (t : List Ev) : Bool := (resolvedVal t 0).isSome

/-- what the inner child's latest answer means for the caller -/
def innerOutcome (t : List Ev) : Option Outcome :=
  match lastRes t 1 with
  | some .pend => some .pending
  | some (.ready _ v) => some (.ready true [v])
  | some (.item v) => some (.some 0 [v])
  | some .fin => some .none
  | _ => none

def c19At (t : List Ev) : Outcome → Bool
  | .panicked => true
  | .misuse => spent false t
  | o =>
    if deadlineDone t then polledSince t 1 && innerOutcome t == some o
    else o == .pending && !everPolled t 1

def holds_C19 : List Ev → Bool
  | [] => true
  | .pollEnd o :: t => holds_C19 t && c19At t o
  | .childBegin c _ _ :: t =>
    holds_C19 t && (if c = 0 then !deadlineDone t else deadlineDone t) && inPoll t
  | _ :: t => holds_C19 t

end Mon
end Fc
