/-
  Fc/MonFun.lean — the functional properties (what a combinator returns, when, and which children
  it touches) as decidable predicates over event traces (NEWEST FIRST, like Fc/Monitors.lean).

  Everything a predicate knows about the children comes from the trace itself: `childEnd c r`
  is what child `c` answered; `pollEnd o` is what the combinator answered.
-/
import Fc.Monitors

namespace Fc
namespace Mon

/-- has an earlier top-level poll unwound? -/
def panickedSeen : List Ev → Bool
  | [] => false
  | .pollEnd .panicked :: _ => true
  | _ :: t => panickedSeen t

/-- the combinator is used up: it returned its final result, unwound, or was dropped.  Polling
    it again is caller misuse; the model answers `misuse`, and only then. -/
def spent (group : Bool) (t : List Ev) : Bool := finalSeen group t || !alive t || panickedSeen t

/-- the value child `c` resolved to (a future's output) -/
def resolvedVal (t : List Ev) (c : Nat) : Option Nat :=
  match lastRes t c with
  | some (.ready _ v) => some v
  | _ => none

/-- the events since the most recent `pollBegin` (newest first) -/
def sincePoll : List Ev → List Ev
  | [] => []
  | .pollBegin _ :: _ => []
  | e :: t => e :: sincePoll t

/-- results of all child polls, newest first -/
def childResults : List Ev → List (Nat × Res)
  | [] => []
  | .childEnd c r :: t => (c, r) :: childResults t
  | _ :: t => childResults t

/-! ### C04 — join -/

def allResolved (n : Nat) (t : List Ev) : Bool :=
  (List.range n).all (fun c => (resolvedVal t c).isSome)

/-- verdict on the outcome `o` of a poll, `t` = the trace before its `pollEnd` -/
def c04At (n : Nat) (t : List Ev) : Outcome → Bool
  | .ready ok vals =>
    ok && allResolved n t && vals == (List.range n).map (fun c => (resolvedVal t c).getD 0)
  | .pending => !allResolved n t
  | .panicked => true
  | .misuse => spent false t
  | _ => false

def holds_C04 (n : Nat) : List Ev → Bool
  | [] => true
  | .pollEnd o :: t => holds_C04 n t && c04At n t o
  | _ :: t => holds_C04 n t

/-! ### C05 — try_join -/

/-- the value child `c` resolved to with `Ok` -/
def okVal (t : List Ev) (c : Nat) : Option Nat :=
  match lastRes t c with
  | some (.ready true v) => some v
  | _ => none

/-- every error any child returned so far, newest first -/
def errs : List Ev → List Nat
  | [] => []
  | .childEnd _ (.ready false v) :: t => v :: errs t
  | _ :: t => errs t

def allOk (n : Nat) (t : List Ev) : Bool := (List.range n).all (fun c => (okVal t c).isSome)

def c05At (n : Nat) (t : List Ev) : Outcome → Bool
  | .ready true vals =>
    errs t == [] && allOk n t && vals == (List.range n).map (fun c => (okVal t c).getD 0)
  | .ready false vals => errs t == vals && vals.length == 1 && errs (sincePoll t) == vals
  | .pending => errs t == [] && !allOk n t
  | .panicked => true
  | .misuse => spent false t
  | _ => false

def holds_C05 (n : Nat) : List Ev → Bool
  | [] => true
  | .pollEnd o :: t => holds_C05 n t && c05At n t o
  | .childBegin _ _ _ :: t => holds_C05 n t && errs t == []
  | _ :: t => holds_C05 n t

/-! ### C06 — race -/

/-- every value any child resolved to so far, newest first -/
def readies : List Ev → List Nat
  | [] => []
  | .childEnd _ (.ready _ v) :: t => v :: readies t
  | _ :: t => readies t

def c06At (t : List Ev) : Outcome → Bool
  | .ready ok vals => ok && readies t == vals && vals.length == 1 && readies (sincePoll t) == vals
  | .pending => readies t == []
  | .panicked => true
  | .misuse => spent false t
  | _ => false

def holds_C06 : List Ev → Bool
  | [] => true
  | .pollEnd o :: t => holds_C06 t && c06At t o
  | .childBegin _ _ _ :: t => holds_C06 t && readies t == []
  | .childDropped _ :: t => holds_C06 t && !alive t
  | _ :: t => holds_C06 t

/-! ### C07 — race_ok -/

def oks : List Ev → List Nat
  | [] => []
  | .childEnd _ (.ready true v) :: t => v :: oks t
  | _ :: t => oks t

/-- the error child `c` failed with -/
def errVal (t : List Ev) (c : Nat) : Option Nat :=
  match lastRes t c with
  | some (.ready false v) => some v
  | _ => none

def allErr (n : Nat) (t : List Ev) : Bool := (List.range n).all (fun c => (errVal t c).isSome)

def c07At (n : Nat) (t : List Ev) : Outcome → Bool
  | .ready true vals => oks t == vals && vals.length == 1 && oks (sincePoll t) == vals
  | .ready false vals =>
    oks t == [] && allErr n t && vals == (List.range n).map (fun c => (errVal t c).getD 0) &&
      (n == 0 || errs (sincePoll t) != [])
  | .pending => oks t == [] && !allErr n t
  | .panicked => true
  | .misuse => spent false t
  | _ => false

def holds_C07 (n : Nat) : List Ev → Bool
  | [] => true
  | .pollEnd o :: t => holds_C07 n t && c07At n t o
  | .childBegin c _ _ :: t => holds_C07 n t && oks t == [] && (errVal t c).isNone
  | _ :: t => holds_C07 n t


/-! ### streams: shared observations -/

/-- values of all items any child produced so far, newest first -/
def items : List Ev → List Nat
  | [] => []
  | .childEnd _ (.item v) :: t => v :: items t
  | _ :: t => items t

/-- the children those items came from, newest first -/
def srcs : List Ev → List Nat
  | [] => []
  | .childEnd c (.item _) :: t => c :: srcs t
  | _ :: t => srcs t

/-- values the combinator yielded so far (all fields of every `Some`), newest first -/
def yielded : List Ev → List Nat
  | [] => []
  | .pollEnd (.some _ vs) :: t => vs.reverse ++ yielded t
  | _ :: t => yielded t

/-- has child `c` returned `None`? -/
def ended (t : List Ev) (c : Nat) : Bool := lastRes t c == some .fin

def allEnded (n : Nat) (t : List Ev) : Bool := (List.range n).all (fun c => ended t c)

/-- did some child return `None` in this segment? -/
def anyFin : List Ev → Bool
  | [] => false
  | .childEnd _ .fin :: _ => true
  | _ :: t => anyFin t

/-! ### C08 — merge -/

/-- verdict on the outcome `o` of a poll, `t` = the trace before its `pollEnd`:
    an item taken in this poll is yielded by this poll (and is the only one taken); `None` exactly
    when every input has ended, in the poll in which the last one ends -/
def c08At (n : Nat) (t : List Ev) : Outcome → Bool
  | .some _ vals => items (sincePoll t) == vals && vals.length == 1
  | .pending => items (sincePoll t) == [] && !allEnded n t
  | .none => items (sincePoll t) == [] && allEnded n t && (n == 0 || anyFin (sincePoll t))
  | .panicked => items (sincePoll t) == []
  | .misuse => spent false t
  | _ => false

/-- C08: per-poll verdicts; nothing is polled once an item was taken in this poll; and globally
    the sequence of yielded values IS the sequence of items the inputs produced (every item exactly
    once, per-input order kept) -/
def holds_C08 (n : Nat) : List Ev → Bool
  | [] => true
  | .pollEnd o :: t => holds_C08 n t && c08At n t o && yielded (.pollEnd o :: t) == items t
  | .childBegin _ _ _ :: t => holds_C08 n t && items (sincePoll t) == []
  | _ :: t => holds_C08 n t

/-! ### C17 — merge fairness -/

/-- every answer input `a` gave so far was an item -/
def alwaysItem : List Ev → Nat → Bool
  | [], _ => true
  | .childEnd c r :: t, a =>
    (c != a || (match r with | .item _ => true | _ => false)) && alwaysItem t a
  | _ :: t, a => alwaysItem t a

/-- at every yield: every input that always had an item is among the sources of the latest `n`
    yields (once there are `n` of them) -/
def c17At (n : Nat) (t : List Ev) : Bool :=
  (List.range n).all (fun a =>
    !(alwaysItem t a) || (srcs t).length < n || ((srcs t).take n).contains a)

def holds_C17 (n : Nat) : List Ev → Bool
  | [] => true
  | .pollEnd (.some k vs) :: t => holds_C17 n t && c17At n t
  | _ :: t => holds_C17 n t

/-! ### C09 — zip -/

/-- items input `c` produced so far, newest first -/
def itemsOf : List Ev → Nat → List Nat
  | [], _ => []
  | .childEnd c' (.item v) :: t, c => if c' = c then v :: itemsOf t c else itemsOf t c
  | _ :: t, c => itemsOf t c

/-- rows yielded so far -/
def rows : List Ev → Nat
  | [] => 0
  | .pollEnd (.some _ _) :: t => rows t + 1
  | _ :: t => rows t

def rowFull (n : Nat) (t : List Ev) : Bool :=
  (List.range n).all (fun c => (itemsOf t c).length == rows t + 1)

/-- a row is yielded exactly when every input has delivered its item for it, and consists of those
    items positionally; `None` in the poll in which an input is found to have ended -/
def c09At (n : Nat) (t : List Ev) : Outcome → Bool
  | .some _ vals =>
    !anyFin t && rowFull n t && vals == (List.range n).map (fun c => (itemsOf t c).headD 0)
  | .pending => !anyFin t && !rowFull n t
  | .none => anyFin (sincePoll t)
  | .panicked => true
  | .misuse => spent false t
  | _ => false

/-- C09: an input is polled only while its item for the current row is missing (so it is never
    more than one item ahead) and never after any input ended -/
def holds_C09 (n : Nat) : List Ev → Bool
  | [] => true
  | .pollEnd o :: t => holds_C09 n t && c09At n t o
  | .childBegin c _ _ :: t => holds_C09 n t && !anyFin t && (itemsOf t c).length == rows t
  | _ :: t => holds_C09 n t

/-! ### C10 — chain -/

def c10At (n : Nat) (t : List Ev) : Outcome → Bool
  | .some _ vals => items (sincePoll t) == vals && vals.length == 1
  | .pending => items (sincePoll t) == [] && !allEnded n t
  | .none => items (sincePoll t) == [] && allEnded n t
  | .panicked => items (sincePoll t) == []
  | .misuse => spent false t
  | _ => false

/-- C10: an input is polled only after every earlier input has ended; the yielded sequence is
    the sequence of produced items (hence the concatenation in input order) -/
def holds_C10 (n : Nat) : List Ev → Bool
  | [] => true
  | .pollEnd o :: t => holds_C10 n t && c10At n t o && yielded (.pollEnd o :: t) == items t
  | .childBegin c _ _ :: t =>
    holds_C10 n t && items (sincePoll t) == [] && (List.range c).all (fun j => ended t j)
  | _ :: t => holds_C10 n t

/-! ### C19 — wait_until (child 0 = deadline, child 1 = inner future / stream) -/

def deadlineDone (t : List Ev) : Bool := (resolvedVal t 0).isSome

/-- what the inner child's latest answer means for the caller -/
def innerOutcome (t : List Ev) : Option Outcome :=
  match lastRes t 1 with
  | some .pend => some .pending
  | some (.ready _ v) => some (.ready true [v])
  | some (.item v) => some (.some 0 [v])
  | some .fin => some .none
  | _ => none

def c19At (t : List Ev) : Outcome → Bool
  | .panicked => true
  | .misuse => spent false t
  | o =>
    if deadlineDone t then polledSince t 1 && innerOutcome t == some o
    else o == .pending && !everPolled t 1

def holds_C19 : List Ev → Bool
  | [] => true
  | .pollEnd o :: t => holds_C19 t && c19At t o
  | .childBegin c _ _ :: t =>
    holds_C19 t && (if c = 0 then !deadlineDone t else deadlineDone t) && inPoll t
  | _ :: t => holds_C19 t

end Mon
end Fc
