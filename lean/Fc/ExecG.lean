/-
  Fc/ExecG.lean — the wake-only executor of Fc/Exec.lean for FutureGroup / StreamGroup.

  The executor polls the group (with a FRESH task waker each time) only if the task has been woken
  since the previous poll began, or it was never polled, or the previous poll yielded an item
  (`Exec.shouldPoll`); otherwise the environment lets the first waiting member (in key order: latest
  answer `Pending`, scripted step left) make progress by invoking the waker it was handed in its most
  recent poll.  Nothing is inserted or removed while the executor runs.
-/
import Fc.Exec

namespace Fc

/-- the operations that only add members / capacity to a group -/
def Op.isInsertLike : Op → Bool
  | .insert _ | .extend _ | .reserve _ => true
  | _ => false

namespace ExecG
open Mon

/-- the first member (in key order) that is waiting: its latest answer was Pending and it has a
    scripted step left -/
def firstWaiting (e : Eng Grp) : Option Nat :=
  (e.s.keys.filterMap e.s.member).find?
    (fun c => lastRes e.w.trace c == some .pend && !(e.w.scripts c).isEmpty)

/-- one round of executor + environment; `none` = nothing left to do (final outcome, or stuck:
    not woken and no member can be prodded) -/
def round (e : Eng Grp) : Option (Eng Grp) :=
  if Exec.finalOut (lastOut e.w.trace) then none
  else if Exec.shouldPoll e.w.trace then some (Eng.poll group e (Exec.pollCount e.w.trace + 1))
  else match firstWaiting e with
    | some c => some (e.fire c 0)
    | none => none

/-- run up to `fuel` rounds -/
def runFor : Nat → Eng Grp → Eng Grp
  | 0, e => e
  | k + 1, e => match round e with
    | some e' => runFor k e'
    | none => e

/-- total number of scripted steps the current members have left -/
def stepsLeft (e : Eng Grp) : Nat :=
  ((e.s.keys.filterMap e.s.member).map (fun c => (e.w.scripts c).length)).sum

end ExecG
end Fc
