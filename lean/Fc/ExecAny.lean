/-
  Fc/ExecAny.lean — the wake-only executor of Fc/Exec.lean with an ARBITRARY environment schedule.

  In Fc/Exec.lean the environment, when the task has not been woken, prods the FIRST waiting child
  in index order.  The property behind C01's "Consequently …" sentence quantifies over every
  schedule, so here the environment is a parameter:

    * `pick : Nat → Eng Fix → Nat` — round number and current state ↦ the child the environment
      would like to let progress next.  If that is a waiting child (`isWaiting`: latest answer
      `Pending` and a scripted step left — the test of `Exec.firstWaiting`) with index `< n`, it is
      prodded (`e.fire c 0`: the waker it was handed in its most recent poll); otherwise the
      environment falls back to `Exec.firstWaiting`.  A schedule therefore cannot simply refuse to
      make progress — fairness is not the point here, safety of ANY choice is.
    * `round` / `runFor` — the executor of Fc/Exec.lean with that choice; `runFor` threads the round
      number (fuel, current round number, state).

  The busy environment (`roundB` / `runForB`) additionally fires, in the same environment round,
  arbitrary further wakers: `pre r e` before and `post r e` after the prod, each a list of
  `(child, age)` pairs as for `World.fire` (age 0 = the waker of the child's most recent poll, age
  `a` = the waker handed `a` polls earlier: a STALE one; any child, also resolved ones, several of
  them).  `round` is `roundB` with both lists empty (`runFor_eq_runForB`).
-/
import Fc.Exec

namespace Fc
namespace ExecAny
open Mon

/-- is child `c` waiting: its latest answer was Pending and it has a scripted step left
    (the test used by `Exec.firstWaiting`) -/
def isWaiting (e : Eng Fix) (c : Nat) : Bool :=
  lastRes e.w.trace c == some .pend && !(e.w.scripts c).isEmpty

/-- the child the environment prods: the schedule's pick if that is a waiting child, otherwise the
    first waiting child; `none` if no child is waiting -/
def choose (n : Nat) (pick : Nat → Eng Fix → Nat) (r : Nat) (e : Eng Fix) : Option Nat :=
  if pick r e < n ∧ isWaiting e (pick r e) = true then some (pick r e) else Exec.firstWaiting n e

/-- one round of executor + environment under the schedule `pick`; `r` is the round number;
    `none` = nothing left to do (final outcome, or stuck: not woken and no child can be prodded) -/
def round (P : Policy Fix) (n : Nat) (pick : Nat → Eng Fix → Nat) (r : Nat) (e : Eng Fix) :
    Option (Eng Fix) :=
  if Exec.finalOut (lastOut e.w.trace) then none
  else if Exec.shouldPoll e.w.trace then some (Eng.poll P e (Exec.pollCount e.w.trace + 1))
  else match choose n pick r e with
    | some c => some (e.fire c 0)
    | none => none

/-- run up to `fuel` rounds, starting with round number `r` -/
def runFor (P : Policy Fix) (n : Nat) (pick : Nat → Eng Fix → Nat) : Nat → Nat → Eng Fix → Eng Fix
  | 0, _, e => e
  | k + 1, r, e => match round P n pick r e with
    | some e' => runFor P n pick k (r + 1) e'
    | none => e

/-! ### the busy environment: several wakers, also stale ones, in one environment round -/

/-- invoke a list of wakers, `(child, age)` as for `World.fire`, in order -/
def fires (e : Eng Fix) : List (Nat × Nat) → Eng Fix
  | [] => e
  | p :: l => fires (e.fire p.1 p.2) l

/-- one round under the schedule `pick` with the extra wake-ups `pre` (before the prod) and `post`
    (after it); the child to prod is chosen in the state the round starts from -/
def roundB (P : Policy Fix) (n : Nat) (pick : Nat → Eng Fix → Nat)
    (pre post : Nat → Eng Fix → List (Nat × Nat)) (r : Nat) (e : Eng Fix) : Option (Eng Fix) :=
  if Exec.finalOut (lastOut e.w.trace) then none
  else if Exec.shouldPoll e.w.trace then some (Eng.poll P e (Exec.pollCount e.w.trace + 1))
  else match choose n pick r e with
    | some c => some (fires ((fires e (pre r e)).fire c 0) (post r e))
    | none => none

def runForB (P : Policy Fix) (n : Nat) (pick : Nat → Eng Fix → Nat)
    (pre post : Nat → Eng Fix → List (Nat × Nat)) : Nat → Nat → Eng Fix → Eng Fix
  | 0, _, e => e
  | k + 1, r, e => match roundB P n pick pre post r e with
    | some e' => runForB P n pick pre post k (r + 1) e'
    | none => e

end ExecAny
end Fc
