/-
  Fc/MonNest.lean — C01 for one level of nesting, on the FLATTENED trace of a nest: the children
  `c < 100` are those of the outer combinator (some of them wrappers around inner combinators), the
  leaves of the inner combinator in outer slot `c` have ids `100*(c+1)+g`; `pollBegin` / `woke` are
  the outer combinator's (the task's).  A wrapper's `childBegin` / `childEnd` bracket the inner
  combinator's poll.
-/
import Fc.Monitors

namespace Fc
namespace Mon

/-- the outer child a leaf belongs to (`none` for a child of the outer combinator itself) -/
def wrapperOf (c : Nat) : Option Nat := if c < 100 then none else some (c / 100 - 1)

/-- does a wake-up of child / leaf `c` still matter?  A leaf matters only while the inner
    combinator it belongs to is itself waiting (its wrapper's last answer was Pending): an inner
    stream that has just yielded an item is simply polled again when the outer combinator wants the
    next one (zip may hold it back until the row is complete), and a finished one is out of the game -/
def relevant (t : List Ev) (c : Nat) : Bool :=
  match wrapperOf c with
  | none => true
  | some w => lastRes t w == some .pend && !gone t w

/-- no owed wake-up of a relevant child or leaf is outstanding -/
def quietNest (n : Nat) (t : List Ev) : Bool :=
  !(alive t && lastOut t == some .pending) ||
  (List.range n).all (fun c =>
    !(lastRes t c == some .pend && !gone t c && relevant t c && owes t c) || wokeSince t)

def c01BoundariesNest (n : Nat) : List Ev → Bool
  | [] => true
  | e :: t => c01BoundariesNest n t && (!(startsOp e && !inPoll t) || quietNest n t)

/-- C01 on the flattened trace of a nest of combinators -/
def holds_C01_nest (n : Nat) (t : List Ev) : Bool :=
  c01BoundariesNest n t && (inPoll t || quietNest n t) && c01NoPanic t

end Mon
end Fc
