/-
  Fc/CoText.lean — line protocol of the concurrent-stream cases.
  header:  CASE <id> co <mode> <fe|tfe|cv|cr> <shape> <takes|-> <limits|-> <items>
  events:  pb w | pe <P | R- | RO | RE e | RV items | RK items | RF e> | ce 0 <r> (source) |
           cc stage j idxs k | ce k <r> (work) | cd k | cd 0 | vd v | db | de     (cb / fi / wo ignored)
-/
import Fc.Text
import Fc.CoMon
import Fc.CoVal

namespace Fc
namespace Co

def parseTerm : String → Option Term
  | "fe" => some .forEach
  | "tfe" => some .tryForEach
  | "cv" => some .collectVec
  | "cr" => some .collectRes
  | _ => none

/-- `shape` letters M R E T L with the take / limit parameters in order of appearance -/
def parseStack : List Char → List Nat → List Nat → Option (List Ad)
  | [], _, _ => some []
  | '-' :: rest, ts, ls => parseStack rest ts ls
  | 'M' :: rest, ts, ls => (parseStack rest ts ls).map (Ad.map :: ·)
  | 'R' :: rest, ts, ls => (parseStack rest ts ls).map (Ad.mapRes :: ·)
  | 'E' :: rest, ts, ls => (parseStack rest ts ls).map (Ad.enum :: ·)
  | 'T' :: rest, t :: ts, ls => (parseStack rest ts ls).map (Ad.take t :: ·)
  | 'L' :: rest, ts, l :: ls => (parseStack rest ts ls).map (Ad.limit l :: ·)
  | _, _, _ => none

def parseCfg (term shape takes limits : String) : Option Cfg := do
  let t ← parseTerm term
  let ts ← parseNatList takes
  let ls ← parseNatList limits
  let st ← parseStack shape.toList ts ls
  some { stack := st, term := t }

/-- `3` or `3:3.3` -/
def parseItem (s : String) : Option (Nat × List Nat) :=
  match s.splitOn ":" with
  | [j] => do some ((← j.toNat?), [])
  | [j, ix] => do some ((← j.toNat?), (← (ix.splitOn ".").mapM String.toNat?))
  | _ => none

def parseItems (s : String) : Option (List (Nat × List Nat)) :=
  if s = "-" then some [] else (s.splitOn ",").mapM parseItem

def parseIdx (s : String) : Option (List Nat) :=
  if s = "-" then some [] else (s.splitOn ".").mapM String.toNat?

/-- `none` = not a concurrent-stream event (ignored), `some none` = malformed -/
def parseCoEv (ws : List String) : Option (Option CoEv) :=
  match ws with
  | ["pb", _] => some (some .topBegin)
  | ["pe", "P"] => some (some (.topEnd .pending))
  | ["pe", "R-"] => some (some (.topEnd .unit))
  | ["pe", "RO"] => some (some (.topEnd .ok))
  | ["pe", "RE", e] => some (e.toNat?.map (fun e => .topEnd (.err e)))
  | ["pe", "RF", e] => some (e.toNat?.map (fun e => .topEnd (.resErr e)))
  | ["pe", "RV", is] => some ((parseItems is).map (fun l => .topEnd (.vec l)))
  | ["pe", "RK", is] => some ((parseItems is).map (fun l => .topEnd (.resOk l)))
  | "pe" :: _ => some none
  | ["ce", k, r] =>
    some (do
      let k ← k.toNat?
      let r ← parseRes r
      some (if k = 0 then .src r else .work k r))
  | ["cc", s, j, ix, k] =>
    some (do some (.call (← s.toNat?) (← j.toNat?) (← parseIdx ix) (← k.toNat?)))
  | ["cd", k] => some (k.toNat?.map (fun k => if k = 0 then .srcDrop else .workDrop k))
  | ["vd", v] => some (v.toNat?.map .valDrop)
  | ["db"] => some (some .dropBegin)
  | ["de"] => some (some .dropEnd)
  | _ => none

/-- `Vec::into_co_stream()` as the source: its polls cannot be observed.  The source is always
    ready, so `drive` takes the next item (or sees the end) whenever it is at the head of its loop;
    the polls are reconstructed accordingly: whenever the acceptor is inside a top-level poll in
    state `loop`, a source poll is inserted — `item` while fewer than `items` were taken, then
    `fin` — until the state leaves `loop`.  Returns the trace with the inserted events (oldest
    first); acceptance and the monitors are then evaluated on that trace. -/
def withHiddenSource (cfg : Cfg) (items : Nat) (evs : List CoEv) : List CoEv :=
  let rec sat (fuel : Nat) (s : St) (acc : List CoEv) : St × List CoEv :=
    match fuel with
    | 0 => (s, acc)
    | f + 1 =>
      if s.inTop && s.ctrl = .loop && !s.srcFin then
        let e : CoEv := if s.taken < items then .src (.item (1000 * (s.taken + 1))) else .src .fin
        match step cfg s e with
        | some s' => sat f s' (e :: acc)
        | none => (s, acc)
      else (s, acc)
  let rec go (s : St) (rest : List CoEv) (acc : List CoEv) : List CoEv :=
    match rest with
    | [] => acc.reverse
    | e :: r =>
      match step cfg s e with
      | some s' =>
        let (s'', acc') := sat (items + 2) s' (e :: acc)
        go s'' r acc'
      | none => (acc.reverse ++ e :: r)     -- rejected: leave the rest as it is
  go (init cfg) evs []

/-- verdict line for one concurrent-stream case (events oldest first); `pre` = the values that exist from the
    start (the items of a `Vec::into_co_stream()` source) -/
def verdict (cfg : Cfg) (pre : List Nat) (evs : List CoEv) : String :=
  let t := evs.reverse
  let acc := accepts cfg t
  let vacc := vaccepts pre t
  let k := acceptedPrefix cfg (init cfg) evs 0
  let b := fun (x : Bool) => if x then "1" else "0"
  s!"eq={b (acc && vacc)} eqCO={b acc} eqC02={b (acc && vacc)} C13={b (holds_C13 cfg t)} C14={b (holds_C14 cfg t)} C15={b (holds_C15 cfg t)} C02={b (holds_C02co pre t)}" ++
    (if acc then (if vacc then "" else " div=0 model=[value-ownership acceptor rejects] impl=[-]")
     else s!" div={k} model=[rejects] impl=[{(evs.drop k).head?.map (fun e => reprStr e) |>.getD "-"}]")

end Co
end Fc
