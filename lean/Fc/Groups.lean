/-
  Fc/Groups.lean — FutureGroup / StreamGroup (future/future_group.rs, stream/stream_group.rs)
  including the key discipline of `slab 0.4.12` (`Slab::insert_at`, `Slab::try_remove`).
-/
import Fc.Families

namespace Fc

structure Grp where
  stream   : Bool               -- StreamGroup?
  keyed    : Bool               -- polled through the `Keyed` view?
  capacity : Nat
  st       : Nat → PS           -- `states`
  member   : Nat → Option Nat   -- slab entry: `some child` = Occupied, `none` = Vacant
  vac      : Nat → Nat          -- `Vacant(next)` payload
  entries  : Nat                -- `slab.entries.len()`
  next     : Nat                -- `slab.next`
  len      : Nat                -- `slab.len`
  keys     : List Nat           -- `BTreeSet<usize>`, ascending
  queue    : List Nat           -- `key_removal_queue`
  doneCnt  : Nat
  total    : Nat                -- `stream_count`
  ret      : List Nat           -- keys returned by `insert`, oldest first (harness handle table)
  dead     : Bool               -- dropped / unwound

namespace Grp

def init (stream keyed : Bool) : Grp :=
  { stream := stream, keyed := keyed, capacity := 0, st := fun _ => .none, member := fun _ => none,
    vac := fun _ => 0, entries := 0, next := 0, len := 0, keys := [], queue := [], doneCnt := 0,
    total := 0, ret := [], dead := false }

/-- `Slab::insert_at(self.next, val)` -/
def slabInsert (s : Grp) (c : Nat) : Grp :=
  if s.next = s.entries then
    { s with member := upd s.member s.next (some c), entries := s.entries + 1, next := s.next + 1,
             len := s.len + 1 }
  else
    { s with member := upd s.member s.next (some c), next := s.vac s.next, len := s.len + 1 }

/-- `Slab::remove(key)` for an occupied key -/
def slabRemove (s : Grp) (k : Nat) : Grp :=
  { s with member := upd s.member k none, vac := upd s.vac k s.next, next := k, len := s.len - 1 }

/-- `BTreeSet::insert` on the ascending key list -/
def insertSorted (k : Nat) : List Nat → List Nat
  | [] => [k]
  | x :: xs => if k < x then k :: x :: xs else if k = x then x :: xs else x :: insertSorted k xs

def outKey (s : Grp) (k : Nat) : Nat := if s.keyed then k else 0

def flushQueue (s : Grp) : Grp :=
  { s with keys := s.keys.filter (fun k => !s.queue.contains k), queue := [] }

end Grp

open Grp

/-- `poll_next_inner` of both groups (future_group.rs:341-409, stream_group.rs:298-386) -/
def group : Policy Grp where
  pre s := if s.dead then some .misuse else if s.len = 0 then some .none else none
  order s := s.keys
  start s := { s with doneCnt := 0, total := s.len }
  preAny _ := true
  loopAny := false
  clearFirst := false
  eligible s k := s.st k = .pending
  child s k := (s.member k).getD 0
  handle s k r :=
    match r with
    | .ready _ v =>
      { s := { (s.slabRemove k) with st := upd s.st k .none, keys := s.keys.filter (· ≠ k) },
        evs := [.childDropped ((s.member k).getD 0)], kop := .nop,
        exit := some (.some (s.outKey k) [v]) }
    | .item v =>
      { s := s.flushQueue, evs := [], kop := .arm k, exit := some (.some (s.outKey k) [v]) }
    | .fin =>
      { s := { (s.slabRemove k) with st := upd s.st k .none, doneCnt := s.doneCnt + 1,
                                     queue := s.queue ++ [k] },
        evs := [.childDropped ((s.member k).getD 0)], kop := .nop, exit := none }
    | _ => { s := s, evs := [], kop := .nop, exit := none }
  finish s :=
    { s := s.flushQueue, evs := [], kop := .nop,
      exit := some (if s.stream && s.doneCnt = s.total then .none else .pending) }
  onPanic s := { s with dead := true }
  panicEvs _ := []
  dropEvs s := (s.keys.filter (fun k => (s.member k).isSome)).map
                 (fun k => .childDropped ((s.member k).getD 0))
  afterDrop s := { s with dead := true }

namespace GEng

/-- `reserve(additional)` (future_group.rs:224-234) -/
def reserve (e : Eng Grp) (additional : Nat) : Eng Grp :=
  if e.s.len + additional < e.s.capacity then e
  else { w := e.w.resize (e.s.capacity + additional),
         s := { e.s with capacity := e.s.capacity + additional } }

/-- `insert(child c)` (future_group.rs:263-279) -/
def grow (e : Eng Grp) : Eng Grp :=
  if e.s.capacity ≤ e.s.len then reserve e (e.s.capacity * 2 + 1) else e

/-- `insert` after the capacity check; `keep`: the caller keeps the returned key -/
def insertAt (e : Eng Grp) (c : Nat) (keep : Bool) : Eng Grp :=
  { w := (e.w.setReady e.s.next).emit (.inserted c e.s.next),
    s := { (e.s.slabInsert c) with st := upd e.s.st e.s.next .pending,
                                   keys := insertSorted e.s.next e.s.keys,
                                   ret := if keep then e.s.ret ++ [e.s.next] else e.s.ret } }

def insert (e : Eng Grp) (c : Nat) : Eng Grp := insertAt (grow e) c true

/-- `remove(key)` with the key returned by the `j`-th insert (future_group.rs:191-198) -/
def remove (e : Eng Grp) (j : Nat) : Eng Grp :=
  match e.s.ret[j]? with
  | none => e
  | some k =>
    if e.s.keys.contains k then
      { w := (e.w.emit (.childDropped ((e.s.member k).getD 0))).emit (.removed k true),
        s := { (e.s.slabRemove k) with st := upd e.s.st k .none, keys := e.s.keys.filter (· ≠ k) } }
    else { e with w := e.w.emit (.removed k false) }

/-- `Extend::extend` (future_group.rs:427-437): reserve the upper size hint, insert each -/
def extend (e : Eng Grp) (cs : List Nat) : Eng Grp :=
  cs.foldl (fun e c => insertAt (grow e) c false) (reserve e cs.length)

def query (e : Eng Grp) (q a : Nat) : Eng Grp := { e with w := e.w.emit (.answer q a) }

def step (e : Eng Grp) : Op → Eng Grp
  | .poll w => Eng.poll group e w
  | .fire c age => e.fire c age
  | .drop => Eng.drop group e
  | .insert c => if e.s.dead then e else insert e c
  | .remove j => if e.s.dead then e else remove e j
  | .reserve k => if e.s.dead then e else reserve e k
  | .extend cs => if e.s.dead then e else extend e cs
  | .qLen => if e.s.dead then e else query e 0 e.s.len
  | .qIsEmpty => if e.s.dead then e else query e 1 (if e.s.len = 0 then 1 else 0)
  | .qContains j =>
    if e.s.dead then e else
    match e.s.ret[j]? with
    | none => e
    | some k => query e (100 + k) (if e.s.keys.contains k then 1 else 0)
  | .qCapacity => if e.s.dead then e else query e 3 e.s.capacity

end GEng

end Fc
