/-
  Fc/CoVal.lean — ownership of VALUES in the concurrent-stream pipeline (C02 for the
  "concurrent-stream drivers"): source items, the errors work futures return, what the operation hands
  back to the caller.

  `Fc/CoSpec.lean` accepts any `valDrop`; this second, independent acceptor tracks which values exist:

    created   `src (item v)` — the source produced item `v` (for `Vec::into_co_stream()` the items exist
              from the start: `pre`) · `work k (ready false e)` — a work future returned the error `e`
    gone      `valDrop v` — dropped by the crate, a closure or a work future · returned to the caller in the
              operation's result (`vec` / `resOk` items, `err` / `resErr` error)

  `vstep` accepts an event iff it is consistent with exactly-once ownership: only a value that exists
  can be dropped or returned, a value is created once (ids are unique), and when the operation's own drop
  returns (`dropEnd`) nothing is left.  The harness logs `vd` for every drop of a value
  (`Tagged::drop`), returned values are released silently after the result has been logged.
  Work futures are covered by `CoSpec` itself (`live`, C13 clause iv).
-/
import Fc.CoSpec

namespace Fc
namespace Co

/-- the value of source item `j` (harness convention `item_id`) -/
def itemVal (j : Nat) : Nat := 1000 * (j + 1)

structure VSt where
  live : List Nat      -- values that exist: created, neither dropped nor returned
  seen : List Nat      -- every value created so far
  deriving Repr

def vinit (pre : List Nat) : VSt := { live := pre, seen := pre }

/-- the values an outcome hands to the caller -/
def retVals : Out → List Nat
  | .vec items => items.map (fun p => itemVal p.1)
  | .resOk items => items.map (fun p => itemVal p.1)
  | .err e => [e]
  | .resErr e => [e]
  | _ => []

/-- remove the values `vs` (one occurrence each) from `l`; `none` if one of them is not there -/
def takeAll : List Nat → List Nat → Option (List Nat)
  | l, [] => some l
  | l, v :: vs => if v ∈ l then takeAll (l.erase v) vs else none

def create (s : VSt) (v : Nat) : Option VSt :=
  if v ∈ s.seen then none else some { live := v :: s.live, seen := v :: s.seen }

def vstep (pre : List Nat) (s : VSt) : CoEv → Option VSt
  | .src (.item v) => if v ∈ pre then some s else create s v
  | .work _ (.ready false e) => create s e
  | .valDrop v => if v ∈ s.live then some { s with live := s.live.erase v } else none
  | .topEnd o => (takeAll s.live (retVals o)).map (fun l => { s with live := l })
  | .dropEnd => if s.live.isEmpty then some s else none
  | _ => some s

/-- run over a trace given NEWEST FIRST -/
def vrun (pre : List Nat) : List CoEv → Option VSt
  | [] => some (vinit pre)
  | e :: t =>
    match vrun pre t with
    | some s => vstep pre s e
    | none => none

def vaccepts (pre : List Nat) (t : List CoEv) : Bool := (vrun pre t).isSome

/-! ### the property as a predicate over the trace alone -/

/-- how often value `v` was created (`pre` counts) -/
def createdV (pre : List Nat) : List CoEv → Nat → Nat
  | [], v => pre.count v
  | .src (.item v') :: t, v => createdV pre t v + (if v' = v ∧ v' ∉ pre then 1 else 0)
  | .work _ (.ready false e) :: t, v => createdV pre t v + (if e = v then 1 else 0)
  | _ :: t, v => createdV pre t v

/-- how often value `v` was dropped or returned to the caller -/
def goneV : List CoEv → Nat → Nat
  | [], _ => 0
  | .valDrop v' :: t, v => goneV t v + (if v' = v then 1 else 0)
  | .topEnd o :: t, v => goneV t v + (retVals o).count v
  | _ :: t, v => goneV t v

/-- every value that occurs in the trace or in `pre` -/
def valsOf (pre : List Nat) : List CoEv → List Nat
  | [] => pre
  | .src (.item v) :: t => v :: valsOf pre t
  | .work _ (.ready false e) :: t => e :: valsOf pre t
  | .valDrop v :: t => v :: valsOf pre t
  | .topEnd o :: t => retVals o ++ valsOf pre t
  | _ :: t => valsOf pre t

/-- C02 for the values of a concurrent-stream operation: at every point of the trace no value has been
    dropped or returned more often than it was created; when the drop of the operation has returned, every
    value that was created has been dropped or returned — exactly once. -/
def holds_C02co (pre : List Nat) : List CoEv → Bool
  | [] => true
  | .valDrop v :: t => holds_C02co pre t && decide (goneV t v + 1 ≤ createdV pre t v)
  | .topEnd o :: t =>
    holds_C02co pre t && (retVals o).all (fun v => decide (goneV (.topEnd o :: t) v ≤ createdV pre t v))
  | .dropEnd :: t =>
    holds_C02co pre t && (valsOf pre t).all (fun v => goneV t v == createdV pre t v)
  | _ :: t => holds_C02co pre t

end Co
end Fc
