/-
  Fc/Text.lean — the line protocol shared with the Rust harness (printing and parsing).
-/
import Fc.Case

namespace Fc

def natList (l : List Nat) : String :=
  if l.isEmpty then "-" else ",".intercalate (l.map toString)

def Wk.text : Wk → String
  | .sub s => s!"s{s}"
  | .par w => s!"p{w}"

def Res.text : Res → String
  | .pend => "P"
  | .ready true v => s!"R{v}"
  | .ready false v => s!"E{v}"
  | .item v => s!"I{v}"
  | .fin => "F"
  | .panic => "X"

def Outcome.text : Outcome → String
  | .pending => "P"
  | .ready ok vals => s!"R {if ok then 1 else 0} {natList vals}"
  | .some k vals => s!"S {k} {natList vals}"
  | .none => "N"
  | .panicked => "X"
  | .misuse => "M"

def Ev.text : Ev → String
  | .pollBegin w => s!"pb {w}"
  | .pollEnd o => s!"pe {o.text}"
  | .childBegin c slot wk => s!"cb {c} {slot} {wk.text}"
  | .childEnd c r => s!"ce {c} {r.text}"
  | .fired c age wk => s!"fi {c} {age} {match wk with | some k => k.text | none => "-"}"
  | .woke w => s!"wo {w}"
  | .wakePanic => "wp"
  | .childDropped c => s!"cd {c}"
  | .valDropped v => s!"vd {v}"
  | .dropBegin => "db"
  | .dropEnd => "de"
  | .inserted c k => s!"in {c} {k}"
  | .removed k p => s!"rm {k} {if p then 1 else 0}"
  | .answer q a => s!"an {q} {a}"

/-! parsing -/

def parseNatList (s : String) : Option (List Nat) :=
  if s = "-" then some [] else (s.splitOn ",").mapM String.toNat?

def parseWk (s : String) : Option Wk :=
  match s.toList with
  | 's' :: r => (String.ofList r).toNat?.map Wk.sub
  | 'p' :: r => (String.ofList r).toNat?.map Wk.par
  | _ => none

def parseRes (s : String) : Option Res :=
  match s.toList with
  | ['P'] => some .pend
  | ['F'] => some .fin
  | ['X'] => some .panic
  | 'R' :: r => (String.ofList r).toNat?.map (Res.ready true)
  | 'E' :: r => (String.ofList r).toNat?.map (Res.ready false)
  | 'I' :: r => (String.ofList r).toNat?.map Res.item
  | _ => none

/-- `P@0.0@1.2`: result, then `@child.age` for every waker fired during the poll -/
def parseStep (s : String) : Option Step :=
  match s.splitOn "@" with
  | [] => none
  | r :: fs => do
    let res ← parseRes r
    let fires ← fs.mapM (fun f =>
      match f.splitOn "." with
      | [a, b] => do some ((← a.toNat?), (← b.toNat?))
      | _ => none)
    some ⟨res, fires⟩

def parseOutcome : List String → Option Outcome
  | ["P"] => some .pending
  | ["N"] => some .none
  | ["X"] => some .panicked
  | ["M"] => some .misuse
  | ["R", ok, vs] => do some (.ready (ok = "1") (← parseNatList vs))
  | ["S", k, vs] => do some (.some (← k.toNat?) (← parseNatList vs))
  | _ => none

def parseEv (ws : List String) : Option Ev :=
  match ws with
  | ["pb", w] => w.toNat?.map Ev.pollBegin
  | "pe" :: o => (parseOutcome o).map Ev.pollEnd
  | ["cb", c, s, wk] => do some (.childBegin (← c.toNat?) (← s.toNat?) (← parseWk wk))
  | ["ce", c, r] => do some (.childEnd (← c.toNat?) (← parseRes r))
  | ["fi", c, a, wk] =>
      if wk = "-" then do some (.fired (← c.toNat?) (← a.toNat?) none)
      else do some (.fired (← c.toNat?) (← a.toNat?) (some (← parseWk wk)))
  | ["wo", w] => w.toNat?.map Ev.woke
  | ["wp"] => some .wakePanic
  | ["cd", c] => c.toNat?.map Ev.childDropped
  | ["vd", v] => v.toNat?.map Ev.valDropped
  | ["db"] => some .dropBegin
  | ["de"] => some .dropEnd
  | ["in", c, k] => do some (.inserted (← c.toNat?) (← k.toNat?))
  | ["rm", k, p] => do some (.removed (← k.toNat?) (p = "1"))
  | ["an", q, a] => do some (.answer (← q.toNat?) (← a.toNat?))
  | _ => none

def parseOp (ws : List String) : Option Op :=
  match ws with
  | ["p", w] => w.toNat?.map Op.poll
  | ["f", c, a] => do some (.fire (← c.toNat?) (← a.toNat?))
  | ["d"] => some .drop
  | ["i", c] => c.toNat?.map Op.insert
  | ["r", j] => j.toNat?.map Op.remove
  | ["v", k] => k.toNat?.map Op.reserve
  | ["e", cs] => (parseNatList cs).map Op.extend
  | ["ql"] => some .qLen
  | ["qe"] => some .qIsEmpty
  | ["qc", j] => j.toNat?.map Op.qContains
  | ["qk"] => some .qCapacity
  | _ => none

def parseFam : String → Option Fam
  | "joinSlice" => some .joinSlice
  | "joinTuple" => some .joinTuple
  | "tryJoinSlice" => some .tryJoinSlice
  | "tryJoinTuple" => some .tryJoinTuple
  | "race" => some .race
  | "raceOkArr" => some .raceOkArr
  | "raceOkVec" => some .raceOkVec
  | "raceOkTup" => some .raceOkTup
  | "merge" => some .merge
  | "zip" => some .zip
  | "chain" => some .chain
  | "waitF" => some .waitF
  | "waitS" => some .waitS
  | "futGroup" => some .futGroup
  | "strGroup" => some .strGroup
  | _ => none

def parseMode : String → Option Mode
  | "std" => some .std
  | "direct" => some .direct
  | _ => none

/-- sort the events of every `db … de` window (the order in which a destructor releases
    what it owns is not part of any property) -/
def canonDrop (t : List String) : List String :=
  let rec go (rest : List String) (inWin : Bool) (win : List String) (acc : List String) : List String :=
    match rest with
    | [] => (acc ++ win).reverse.reverse
    | l :: r =>
      if l = "db" then go r true [] (acc ++ [l])
      else if l = "de" then go r false [] (acc ++ (win.toArray.qsort (· < ·)).toList ++ [l])
      else if inWin then go r true (win ++ [l]) acc
      else go r false [] (acc ++ [l])
  go t false [] []

end Fc
