/-
  Fc/Kernel.lean — the waker kernel shared by every combinator model.

  Transcribes (anchors in /repo/src):
    utils/wakers/array/readiness_array.rs, utils/wakers/vec/readiness_vec.rs   (std mode)
    utils/wakers/array/no_std.rs,          utils/wakers/vec/no_std.rs           (direct mode)
    utils/wakers/array/waker.rs,           utils/wakers/vec/waker.rs            (InlineWaker::wake)
  plus the scripted children and the ghost event trace that the correspondence
  harness logs.  Import-free (core Lean only) so the driver links as a lean_exe.
-/
namespace Fc

/-- point update of a total map -/
def upd {α : Type} (f : Nat → α) (i : Nat) (v : α) : Nat → α :=
  fun j => if j = i then v else f j

@[simp] theorem upd_same {α : Type} (f : Nat → α) (i : Nat) (v : α) : upd f i v i = v := by
  simp [upd]

@[simp] theorem upd_other {α : Type} (f : Nat → α) (i j : Nat) (v : α) (h : j ≠ i) :
    upd f i v j = f j := by
  simp [upd, h]

/-- waker strategy: `std` = per-child sub-wakers + readiness bits,
    `direct` = the parent waker is handed straight to the children (alloc-only / no_std
    builds, and race / race_ok / chain / wait_until in every build). -/
inductive Mode | std | direct
  deriving DecidableEq, Repr

/-- result of one child poll -/
inductive Res
  | pend
  | ready (ok : Bool) (v : Nat)
  | item (v : Nat)
  | fin
  | panic
  deriving DecidableEq, Repr

/-- one scripted step of a child: its result and the wakers `(child, age)` invoked while
    that poll runs (`age` = index into the wakers handed to `child`, most recent first). -/
structure Step where
  res : Res
  fires : List (Nat × Nat)
  deriving Repr

/-- a waker that was handed to a child -/
inductive Wk
  | sub (slot : Nat)
  | par (w : Nat)
  deriving DecidableEq, Repr

/-- result of one top-level poll -/
inductive Outcome
  | pending
  | ready (ok : Bool) (vals : List Nat)
  | some (key : Nat) (vals : List Nat)
  | none
  | panicked
  | misuse
  deriving DecidableEq, Repr

/-- observable events; the harness logs exactly these from the real code -/
inductive Ev
  | pollBegin (w : Nat)
  | pollEnd (o : Outcome)
  | childBegin (c slot : Nat) (wk : Wk)
  | childEnd (c : Nat) (r : Res)
  | fired (c age : Nat) (wk : Option Wk)
  | woke (w : Nat)
  | wakePanic
  | childDropped (c : Nat)
  | valDropped (v : Nat)
  | dropBegin
  | dropEnd
  | inserted (c key : Nat)
  | removed (key : Nat) (present : Bool)
  | answer (q a : Nat)
  deriving DecidableEq, Repr

structure World where
  mode    : Mode
  cap     : Nat
  bits    : Nat → Bool
  count   : Nat
  parent  : Option Nat
  scripts : Nat → List Step
  handed  : Nat → List Wk
  trace   : List Ev            -- newest first

namespace World

def init (mode : Mode) (cap : Nat) (scripts : Nat → List Step) : World :=
  { mode := mode, cap := cap, bits := fun i => decide (i < cap), count := cap, parent := none,
    scripts := scripts, handed := fun _ => [], trace := [] }

def emit (w : World) (e : Ev) : World := { w with trace := e :: w.trace }

def emits (w : World) (evs : List Ev) : World := { w with trace := evs.reverse ++ w.trace }

/-- `Readiness::set_waker` -/
def setWaker (w : World) (p : Nat) : World := { w with parent := some p }

/-- `Readiness::any_ready` -/
def anyReady (w : World) : Bool :=
  match w.mode with
  | .std => decide (0 < w.count)
  | .direct => true

/-- the value `Readiness::clear_ready(i)` returns -/
def isSet (w : World) (i : Nat) : Bool :=
  match w.mode with
  | .std => w.bits i
  | .direct => true

/-- the state change of `Readiness::clear_ready(i)` -/
def clearReady (w : World) (i : Nat) : World :=
  match w.mode with
  | .std => if w.bits i then { w with bits := upd w.bits i false, count := w.count - 1 } else w
  | .direct => w

/-- `Readiness::set_ready(i)` (its return value is `isSet` before the call, resp. `false`) -/
def setReady (w : World) (i : Nat) : World :=
  match w.mode with
  | .std => if w.bits i then w else { w with bits := upd w.bits i true, count := w.count + 1 }
  | .direct => w

/-- `Readiness::set_all_ready` -/
def setAllReady (w : World) : World :=
  match w.mode with
  | .std => { w with bits := fun j => decide (j < w.cap), count := w.cap }
  | .direct => w

/-- `WakerVec::resize(len)` / `ReadinessVec::resize(len)`; only growth is reachable through
    the public API (`reserve` adds), a smaller `len` leaves the model unchanged. -/
def resize (w : World) (len : Nat) : World :=
  if w.cap < len then
    match w.mode with
    | .std => { w with bits := fun j => if w.cap ≤ j ∧ j < len then true else w.bits j,
                       count := w.count + (len - w.cap), cap := len }
    | .direct => { w with cap := len }
  else w

/-- `wakers.get(i)`: the waker handed to the child in `slot` -/
def wakerFor (w : World) (slot : Nat) : Wk :=
  match w.mode with
  | .std => .sub slot
  | .direct => .par (w.parent.getD 0)

/-- invoking a waker: `InlineWaker::wake` for sub-wakers, the task waker otherwise -/
def fireWk (w : World) : Wk → World
  | .par p => w.emit (.woke p)
  | .sub i =>
    match w.mode with
    | .direct => w
    | .std =>
      if w.bits i then w
      else
        match w.parent with
        | some p => (w.setReady i).emit (.woke p)
        | none => (w.setReady i).emit .wakePanic

/-- invoke the waker handed to child `c` in its `age`-th most recent poll -/
def fire (w : World) (c age : Nat) : World :=
  match (w.handed c)[age]? with
  | none => w.emit (.fired c age none)
  | some wk => (w.emit (.fired c age (some wk))).fireWk wk

def fires (w : World) (l : List (Nat × Nat)) : World :=
  l.foldl (fun w p => w.fire p.1 p.2) w

/-- next scripted step of child `c`; an exhausted script is `Pending` forever -/
def stepOf (w : World) (c : Nat) : Step :=
  match w.scripts c with
  | [] => ⟨.pend, []⟩
  | s :: _ => s

def resOf (w : World) (c : Nat) : Res := (w.stepOf c).res

/-- poll child `c` living in `slot`: hand it its waker, run the wake-ups of this step, log -/
def pollChild (w : World) (c slot : Nat) : World :=
  (({ w with scripts := upd w.scripts c (w.scripts c).tail,
             handed := upd w.handed c (w.wakerFor slot :: w.handed c),
             trace := .childBegin c slot (w.wakerFor slot) :: w.trace }).fires
      (w.stepOf c).fires).emit (.childEnd c (w.resOf c))

end World

/-- what a combinator does to the readiness set after handling a child's result -/
inductive KOp | nop | arm (i : Nat) | armAll
  deriving DecidableEq, Repr

def World.kop (w : World) : KOp → World
  | .nop => w
  | .arm i => w.setReady i
  | .armAll => w.setAllReady

end Fc
