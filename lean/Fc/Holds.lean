/-
  Fc/Holds.lean — which property monitors apply to which case, and their verdicts on a trace.
-/
import Fc.Monitors
import Fc.MonFun
import Fc.MonGrp

namespace Fc
open Mon

/-- C20 covers join, try_join, race, race_ok, merge, zip and the groups -/
def Fam.inC20 : Fam → Bool
  | .chain | .waitF | .waitS => false
  | _ => true

/-- C16 covers the families that use the readiness set, in `std` mode -/
def Case.inC16 (c : Case) : Bool := c.mode = .std && !c.fam.passThrough

/-- verdict of every applicable monitor on a (newest-first) trace: `(property id, holds)` -/
def holdsAll (c : Case) (nch : Nat) (t : List Ev) : List (String × Bool) :=
  [("C01", holds_C01 nch t),
   -- "no poll unwinds unless a child panicked in it, no waker invocation panics": the part of
   -- C01 every functional check also evaluates (a panic is never an acceptable answer)
   ("NP", c01NoPanic t),
   -- "not stuck": the harness's fair wake-only executor (profile `drain`) logs `answer 98 0` when the
   -- combinator is still Pending although the task was not woken and no child that has not already
   -- invoked its waker is waiting, or when the run exceeds its round budget; the harness's watchdog
   -- logs `answer 97 0` when a case stops making progress altogether (a deadlock)
   ("LV", !t.any (fun e => e == .answer 98 0 || e == .answer 97 0)),
   ("C02", holds_C02 (!c.fam.isGroup) nch t),
   ("C03", holds_C03 c.fam.isGroup t)]
  ++ (if c.inC16 then [("C16", holds_C16 t)] else [])
  ++ (if c.fam.inC20 then [("C20", holds_C20 (!c.fam.isGroup) nch t)] else [])
  ++ (match c.fam with
      | .joinSlice | .joinTuple => [("C04", holds_C04 c.n t)]
      | .tryJoinSlice | .tryJoinTuple => [("C05", holds_C05 c.n t)]
      | .race => [("C06", holds_C06 t)]
      | .raceOkArr | .raceOkVec | .raceOkTup => [("C07", holds_C07 c.n t)]
      | .waitF | .waitS => [("C19", holds_C19 t)]
      | .merge => [("C08", holds_C08 c.n t), ("C17", holds_C17 c.n t)]
      | .zip => [("C09", holds_C09 c.n t)]
      | .chain => [("C10", holds_C10 c.n t)]
      | .futGroup => [("C11", holds_C11 c.keyed nch t)]
      | .strGroup => [("C12", holds_C12 c.keyed nch t)])

def holdsText (c : Case) (nch : Nat) (t : List Ev) : String :=
  " ".intercalate ((holdsAll c nch t).map (fun p => s!"{p.1}={if p.2 then 1 else 0}"))

end Fc
