/-
  Fc/Families.lean — one `Policy` per combinator family with a fixed set of children.
  Every definition is a transcription of the `poll` / `poll_next` / `PinnedDrop` code named
  in its doc comment (paths relative to /repo/src).
-/
import Fc.Engine

namespace Fc

/-- `PollState` (utils/poll_state/poll_state.rs) -/
inductive PS | none | pending | ready
  deriving DecidableEq, Repr

/-- state of a combinator over `n` children (superset of the fields the families use) -/
structure Fix where
  n    : Nat
  st   : Nat → PS            -- `state` / `error_states`
  out  : Nat → Option Nat    -- `items` / `outputs` / `errors` / zip `output`
  cnt  : Nat                 -- `pending` | `completed` | `complete` | chain `index`
  off  : Nat                 -- `Indexer::offset`
  dead : Bool                -- `consumed` / `done` / unwound / dropped

namespace Fix

def init (n : Nat) (cnt : Nat) : Fix :=
  { n := n, st := fun _ => .pending, out := fun _ => none, cnt := cnt, off := 0, dead := false }

/-- values stored in the slots, positionally -/
def outs (s : Fix) : List Nat := (List.range s.n).map (fun i => (s.out i).getD 0)

/-- `Indexer::iter` (utils/indexer.rs:15-41): `(pos + offset) % max` for `pos` in `0..max` -/
def rot (s : Fix) : List Nat := (List.range s.n).map (fun k => (k + s.off) % s.n)

def bump (s : Fix) : Fix := { s with off := (s.off + 1) % s.n }

def kill (s : Fix) : Fix := { s with dead := true }

def keep (s : Fix) : HRes Fix := { s := s, evs := [], kop := .nop, exit := none }

def misuseIfDead (s : Fix) : Option Outcome := if s.dead then some .misuse else none

/-- `state.ready_indexes()` values, then `state.pending_indexes()` children -/
def dropStates (s : Fix) : List Ev :=
  ((List.range s.n).filter (fun i => s.st i = .ready)).map (fun i => .valDropped ((s.out i).getD 0))
  ++ ((List.range s.n).filter (fun i => s.st i = .pending)).map (fun i => .childDropped i)

/-- buffered values, then every child (children are plain fields) -/
def dropAll (s : Fix) : List Ev :=
  ((List.range s.n).filter (fun i => s.st i = .ready)).map (fun i => .valDropped ((s.out i).getD 0))
  ++ (List.range s.n).map (fun i => .childDropped i)

/-- stream/wait_until.rs: the deadline's output is a temporary of the `match`; it is released
    after the inner stream's first poll -/
def bufEvs (s : Fix) : List Ev := match s.out 0 with | some v => [.valDropped v] | none => []
def unbuf (s : Fix) : Fix := { s with out := upd s.out 0 none }

def allReady (s : Fix) : Bool := (List.range s.n).all (fun j => s.st j = .ready)

end Fix

open Fix

/-- future/join/array.rs:88-152,155-177 and future/join/vec.rs (identical) -/
def joinSlice : Policy Fix where
  pre s := s.misuseIfDead
  order s := List.range s.n
  start s := s
  preAny s := s.cnt != 0
  loopAny := false
  clearFirst := false
  eligible s i := s.st i = .pending
  child _ i := i
  handle s i r :=
    match r with
    | .ready _ v =>
      { s := { s with st := upd s.st i .ready, out := upd s.out i (some v), cnt := s.cnt - 1 },
        evs := [.childDropped i], kop := .nop, exit := none }
    | _ => s.keep
  finish s :=
    if s.cnt = 0 then
      { s := { s with dead := true, st := fun _ => .none }, evs := [], kop := .nop,
        exit := some (.ready true s.outs) }
    else { s := s, evs := [], kop := .nop, exit := some .pending }
  onPanic s := s.kill
  panicEvs _ := []
  dropEvs s := s.dropStates
  afterDrop s := { s with dead := true, st := fun _ => .none }

/-- future/join/tuple.rs:190-256 (arity ≥ 1) and :110-134 (arity 0) -/
def joinTuple : Policy Fix where
  pre s := if s.n = 0 then some (.ready true []) else s.misuseIfDead
  order s := List.range s.n
  start s := s
  preAny _ := false
  loopAny := true
  clearFirst := true
  eligible s i := s.st i ≠ .ready
  child _ i := i
  handle s i r :=
    match r with
    | .ready _ v =>
      if s.cnt + 1 = s.n then
        { s := { s with st := fun _ => .none, out := upd s.out i (some v), cnt := s.cnt + 1, dead := true },
          evs := [.childDropped i], kop := .nop,
          exit := some (.ready true ({ s with out := upd s.out i (some v) }).outs) }
      else
        { s := { s with st := upd s.st i .ready, out := upd s.out i (some v), cnt := s.cnt + 1 },
          evs := [.childDropped i], kop := .nop, exit := none }
    | _ => s.keep
  finish s := { s := s, evs := [], kop := .nop, exit := some .pending }
  onPanic s := s.kill
  panicEvs _ := []
  dropEvs s := s.dropStates
  afterDrop s := { s with dead := true, st := fun _ => .none }

/-- future/try_join/array.rs:88-168,170-195 and future/try_join/vec.rs -/
def tryJoinSlice : Policy Fix where
  pre s := s.misuseIfDead
  order s := List.range s.n
  start s := s
  preAny s := s.cnt != 0
  loopAny := false
  clearFirst := false
  eligible s i := s.st i = .pending
  child _ i := i
  handle s i r :=
    match r with
    | .ready true v =>
      { s := { s with st := upd s.st i .ready, out := upd s.out i (some v), cnt := s.cnt - 1 },
        evs := [.childDropped i], kop := .nop, exit := none }
    | .ready false v =>
      { s := { s with st := upd s.st i .none, cnt := s.cnt - 1, dead := true },
        evs := [.childDropped i], kop := .nop, exit := some (.ready false [v]) }
    | _ => s.keep
  finish s :=
    if s.cnt = 0 then
      { s := { s with dead := true, st := fun _ => .none }, evs := [], kop := .nop,
        exit := some (.ready true s.outs) }
    else { s := s, evs := [], kop := .nop, exit := some .pending }
  onPanic s := s.kill
  panicEvs _ := []
  dropEvs s := s.dropStates
  afterDrop s := { s with dead := true, st := fun _ => .none }

/-- future/try_join/tuple.rs:23-66,224-283 (arity ≥ 1); arity 0 resolves to `Ok(())` -/
def tryJoinTuple : Policy Fix where
  pre s := if s.n = 0 then some (.ready true []) else s.misuseIfDead
  order s := List.range s.n
  start s := s
  preAny _ := false
  loopAny := true
  clearFirst := true
  eligible s i := s.st i ≠ .ready
  child _ i := i
  handle s i r :=
    match r with
    | .ready true v =>
      if s.cnt + 1 = s.n then
        { s := { s with st := fun _ => .none, out := upd s.out i (some v), cnt := s.cnt + 1, dead := true },
          evs := [.childDropped i], kop := .nop,
          exit := some (.ready true ({ s with out := upd s.out i (some v) }).outs) }
      else
        { s := { s with st := upd s.st i .ready, out := upd s.out i (some v), cnt := s.cnt + 1 },
          evs := [.childDropped i], kop := .nop, exit := none }
    | .ready false v =>
      { s := { s with st := upd s.st i .none, cnt := s.cnt + 1, dead := true },
        evs := [.childDropped i], kop := .nop, exit := some (.ready false [v]) }
    | _ => s.keep
  finish s := { s := s, evs := [], kop := .nop, exit := some .pending }
  onPanic s := s.kill
  panicEvs _ := []
  dropEvs s := s.dropStates
  afterDrop s := { s with dead := true, st := fun _ => .none }

/-- future/race/{array,vec,tuple}.rs — rotating scan, the caller's `Context` is passed through -/
def race : Policy Fix where
  pre s := s.misuseIfDead
  order s := s.rot
  start s := s.bump
  preAny _ := false
  loopAny := false
  clearFirst := false
  eligible _ _ := true
  child _ i := i
  handle s _ r :=
    match r with
    | .ready _ v => { s := s.kill, evs := [], kop := .nop, exit := some (.ready true [v]) }
    | _ => s.keep
  finish s := { s := s, evs := [], kop := .nop, exit := some .pending }
  onPanic s := s.kill
  panicEvs _ := []
  dropEvs s := (List.range s.n).map (fun i => .childDropped i)
  afterDrop s := s.kill

/-- race_ok: `rotate` = tuple (Indexer + `done`), `early` = Vec (`MaybeDone` drops a finished
    child at once); array: neither.  future/race_ok/{array,vec,tuple}/mod.rs -/
def raceOk (rotate early : Bool) : Policy Fix where
  pre s := s.misuseIfDead
  order s := if rotate then s.rot else List.range s.n
  start s := if rotate then s.bump else s
  preAny _ := false
  loopAny := false
  clearFirst := false
  eligible s i := s.st i ≠ .ready
  child _ i := i
  handle s i r :=
    match r with
    | .ready true v =>
      { s := { s with dead := true, st := if early then upd s.st i .none else s.st },
        evs := if early then [.childDropped i] else [], kop := .nop,
        exit := some (.ready true [v]) }
    | .ready false v =>
      { s := { s with st := upd s.st i .ready, out := upd s.out i (some v), cnt := s.cnt + 1 },
        evs := if early then [.childDropped i] else [], kop := .nop, exit := none }
    | _ => s.keep
  finish s :=
    if s.cnt = s.n then
      { s := { s with dead := true, st := fun _ => .none }, evs := [], kop := .nop,
        exit := some (.ready false s.outs) }
    else { s := s, evs := [], kop := .nop, exit := some .pending }
  onPanic s := s.kill
  panicEvs _ := []
  dropEvs s :=
    if early then
      ((List.range s.n).filter (fun i => s.st i = .ready)).map (fun i => .valDropped ((s.out i).getD 0))
      ++ ((List.range s.n).filter (fun i => s.st i = .pending)).map (fun i => .childDropped i)
    else s.dropAll
  afterDrop s := { s with dead := true, st := fun _ => .none }

/-- stream/merge/{array,vec,tuple}.rs; zero inputs end at once (tuple.rs:33-65; array/vec by
    the early return in front of the indexer) -/
def merge : Policy Fix where
  pre s := if s.n = 0 then some .none else s.misuseIfDead
  order s := s.rot
  start s := s.bump
  preAny _ := false
  loopAny := true
  clearFirst := true
  eligible s i := s.st i ≠ .none
  child _ i := i
  handle s i r :=
    match r with
    | .item v => { s := s, evs := [], kop := .arm i, exit := some (.some 0 [v]) }
    | .fin =>
      if s.cnt + 1 = s.n then
        { s := { s with st := upd s.st i .none, cnt := s.cnt + 1, dead := true }, evs := [],
          kop := .nop, exit := some .none }
      else
        { s := { s with st := upd s.st i .none, cnt := s.cnt + 1 }, evs := [], kop := .nop,
          exit := none }
    | _ => s.keep
  finish s := { s := s, evs := [], kop := .nop, exit := some .pending }
  onPanic s := s.kill
  panicEvs _ := []
  dropEvs s := (List.range s.n).map (fun i => .childDropped i)
  afterDrop s := s.kill

/-- stream/zip/{array,vec,tuple}.rs -/
def zip : Policy Fix where
  pre s := s.misuseIfDead
  order s := List.range s.n
  start s := s
  preAny _ := false
  loopAny := true
  clearFirst := false
  eligible s i := s.st i ≠ .ready
  child _ i := i
  handle s i r :=
    match r with
    | .item v =>
      if ({ s with st := upd s.st i .ready }).allReady then
        { s := { s with st := fun _ => .pending, out := fun _ => none }, evs := [], kop := .armAll,
          exit := some (.some 0 ({ s with out := upd s.out i (some v) }).outs) }
      else
        { s := { s with st := upd s.st i .ready, out := upd s.out i (some v) }, evs := [],
          kop := .nop, exit := none }
    | .fin => { s := s.kill, evs := [], kop := .nop, exit := some .none }
    | _ => s.keep
  finish s := { s := s, evs := [], kop := .nop, exit := some .pending }
  onPanic s := s.kill
  panicEvs _ := []
  dropEvs s := s.dropAll
  afterDrop s := { s with dead := true, st := fun _ => .none }

/-- stream/chain/{array,vec,tuple}.rs — `cnt` is `index`; strictly sequential -/
def chain : Policy Fix where
  pre s := s.misuseIfDead
  order s := List.range' s.cnt (s.n - s.cnt)
  start s := s
  preAny _ := false
  loopAny := false
  clearFirst := false
  eligible _ _ := true
  child _ i := i
  handle s _ r :=
    match r with
    | .item v => { s := s, evs := [], kop := .nop, exit := some (.some 0 [v]) }
    | .fin => { s := { s with cnt := s.cnt + 1 }, evs := [], kop := .nop, exit := none }
    | _ => { s := s, evs := [], kop := .nop, exit := some .pending }
  finish s := { s := s.kill, evs := [], kop := .nop, exit := some .none }
  onPanic s := s.kill
  panicEvs _ := []
  dropEvs s := (List.range s.n).map (fun i => .childDropped i)
  afterDrop s := s.kill

/-- future/wait_until.rs:44-62 — child 0 = deadline, child 1 = inner; `cnt` 0 = Started,
    1 = PollFuture -/
def waitUntilF : Policy Fix where
  pre s := s.misuseIfDead
  order s := (if s.cnt = 0 then [0, 1] else [1]).filter (· < s.n)
  start s := s
  preAny _ := false
  loopAny := false
  clearFirst := false
  eligible _ _ := true
  child _ i := i
  handle s i r :=
    match r with
    | .ready _ v =>
      if i = 0 then { s := { s with cnt := 1 }, evs := [.valDropped v], kop := .nop, exit := none }
      else { s := s.kill, evs := [], kop := .nop, exit := some (.ready true [v]) }
    | _ => { s := s, evs := [], kop := .nop, exit := some .pending }
  finish s := { s := s, evs := [], kop := .nop, exit := some .pending }
  onPanic s := s.kill
  panicEvs _ := []
  dropEvs _ := [.childDropped 1, .childDropped 0]
  afterDrop s := s.kill

/-- stream/wait_until.rs:49-62 — child 0 = deadline (a future), child 1 = inner stream -/
def waitUntilS : Policy Fix where
  pre s := s.misuseIfDead
  order s := (if s.cnt = 0 then [0, 1] else [1]).filter (· < s.n)
  start s := s
  preAny _ := false
  loopAny := false
  clearFirst := false
  eligible _ _ := true
  child _ i := i
  handle s i r :=
    match r with
    | .ready _ v =>
      if i = 0 then { s := { s with cnt := 1, out := upd s.out 0 (some v) }, evs := [], kop := .nop, exit := none }
      else { s := s, evs := [], kop := .nop, exit := some .pending }
    | .item v => { s := s.unbuf, evs := s.bufEvs, kop := .nop, exit := some (.some 0 [v]) }
    | .fin => { s := s.unbuf.kill, evs := s.bufEvs, kop := .nop, exit := some .none }
    | _ => { s := s.unbuf, evs := s.bufEvs, kop := .nop, exit := some .pending }
  finish s := { s := s, evs := [], kop := .nop, exit := some .pending }
  onPanic s := s.unbuf.kill
  panicEvs s := s.bufEvs
  dropEvs _ := [.childDropped 1, .childDropped 0]
  afterDrop s := s.kill

end Fc
