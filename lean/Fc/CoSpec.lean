/-
  Fc/CoSpec.lean — concurrent streams (src/concurrent_stream/*.rs, src/collections/vec.rs).

  An operational model of the *algorithm* of

      stream.co() → adapters (map / enumerate / take / limit) → for_each | try_for_each | collect

  at the granularity of its atomic actions, written as a trace acceptor: `step cfg s ev` accepts
  the event `ev` in state `s` iff the code can produce it there, and performs the code's
  bookkeeping.  The only nondeterminism of the code — which woken member of the
  `FuturesUnordered` bag is polled next, the poll order of `(progress, next).race()`, when a
  top-level poll gives up — is resolved by the log.  Anchors:

    from_stream.rs:31-89     drive: race progress against the next source item; send; flush
    for_each.rs:66-93        send (back-pressure while count >= limit), progress, flush
    try_for_each.rs:70-129   the same with `residual` / Break on the first error
    from_concurrent_stream.rs:66-143   VecConsumer / ResultVecConsumer
    take.rs:69-79, enumerate.rs:64-69, map.rs:140-181, limit.rs:33-37

  `take(0)` is modelled as fixed (no item is taken at all), see DESIGN.md §9 D2.
-/
import Fc.Kernel

namespace Fc
namespace Co

/-- adapters, written source → sink -/
inductive Ad
  | map | mapRes | enum | take (n : Nat) | limit (l : Nat)   -- `limit 0` = `limit(None)`
  deriving DecidableEq, Repr

inductive Term | forEach | tryForEach | collectVec | collectRes
  deriving DecidableEq, Repr

structure Cfg where
  stack : List Ad
  term  : Term
  deriving Repr

def Ad.isClosure : Ad → Bool
  | .map | .mapRes => true
  | _ => false

def Cfg.maps (c : Cfg) : Nat := (c.stack.filter Ad.isClosure).length

def Cfg.hasTermClosure (c : Cfg) : Bool := c.term = .forEach || c.term = .tryForEach

/-- number of closure stages a member runs through: the maps in stack order, then the terminal
    closure of for_each / try_for_each -/
def Cfg.stages (c : Cfg) : Nat := c.maps + (if c.hasTermClosure then 1 else 0)

/-- `concurrency_limit()` of the outermost adapter: `Limit` answers its own value, every other
    adapter forwards the question to its inner stream; `FromStream` answers `None` -/
def limitOf (stack : List Ad) : Option Nat :=
  match (stack.filterMap (fun a => match a with | .limit l => some l | _ => none)).getLast? with
  | some 0 => none
  | some l => some l
  | none => none

/-- the limit the for_each / try_for_each consumer enforces (`usize::MAX` when there is none);
    `collect` ignores it -/
def Cfg.limit (c : Cfg) : Option Nat := if c.hasTermClosure then limitOf c.stack else none

def Cfg.takes (c : Cfg) : List Nat :=
  c.stack.filterMap (fun a => match a with | .take n => some n | _ => none)

/-- some `take(0)`: nothing is driven at all -/
def Cfg.takeZero (c : Cfg) : Bool := c.takes.any (· == 0)

/-- `take` reports Break once its count reaches its limit -/
def Cfg.breakAt (c : Cfg) (taken : Nat) : Bool := c.takes.any (fun n => decide (n ≤ taken))

/-- number of `enumerate` adapters in front of closure stage `s` (for `s ≥ maps`: all of them) -/
def enumsBefore : List Ad → Nat → Nat
  | [], _ => 0
  | .enum :: rest, s => enumsBefore rest s + 1
  | a :: rest, s =>
    if a.isClosure then (match s with | 0 => 0 | s' + 1 => enumsBefore rest s') else enumsBefore rest s

def Cfg.enums (c : Cfg) : Nat := (c.stack.filter (· == .enum)).length

/-- the enumerate indices a value of item `j` carries when it reaches stage `s` -/
def Cfg.idxAt (c : Cfg) (s j : Nat) : List Nat :=
  List.replicate (if s < c.maps then enumsBefore c.stack s else c.enums) j

inductive Out
  | pending | unit | ok | err (e : Nat)
  | vec (items : List (Nat × List Nat)) | resOk (items : List (Nat × List Nat)) | resErr (e : Nat)
  deriving DecidableEq, Repr

inductive CoEv
  | topBegin
  | topEnd (o : Out)
  | src (r : Res)                                   -- the source stream was polled
  | call (stage j : Nat) (idx : List Nat) (k : Nat) -- closure `stage` called for item `j`, returned work future `k`
  | work (k : Nat) (r : Res)                        -- work future `k` was polled
  | workDrop (k : Nat)
  | valDrop (v : Nat)
  | srcDrop
  | dropBegin | dropEnd
  deriving DecidableEq, Repr

inductive Ctrl
  | loop                 -- the `loop` of `drive`: racing `progress` against the next item
  | sending (j : Nat)    -- inside the consumer's `send`: back-pressure, item `j` not yet pushed
  | flushing             -- `flush`
  | failing (e : Nat)    -- an error was observed: the operation resolves to it in this very poll
  | done
  deriving DecidableEq, Repr

structure Member where
  j     : Nat            -- source position of the item
  stage : Nat            -- closure stage it is at (next to be called, or running)
  cur   : Option Nat     -- the running work future of that stage
  deriving DecidableEq, Repr

structure St where
  ctrl    : Ctrl
  inTop   : Bool
  srcFin  : Bool
  taken   : Nat                       -- items taken from the source
  members : List Member               -- in flight (pushed into the bag, not yet completed)
  count   : Nat                       -- the consumer's `count`
  out     : List (Nat × List Nat)     -- collected so far (completion order)
  live    : List Nat                  -- work futures created and not yet dropped
  dropped : Bool                      -- the operation's future was dropped
  deriving Repr

def init (c : Cfg) : St :=
  { ctrl := if c.takeZero then .flushing else .loop, inTop := false, srcFin := false, taken := 0,
    members := [], count := 0, out := [], live := [], dropped := false }

def underLimit (c : Cfg) (count : Nat) : Bool :=
  match c.limit with
  | none => true
  | some l => decide (count < l)

/-- the consumer pushes item `j` into the bag; `take` then decides whether to go on -/
def push (c : Cfg) (s : St) (j : Nat) : St :=
  { s with members := s.members ++ [{ j := j, stage := 0, cur := none }],
           count := if c.hasTermClosure then s.count + 1 else s.count,
           ctrl := if c.breakAt s.taken then .flushing else .loop }

/-- the source delivered item number `s.taken` -/
def takeItem (c : Cfg) (s : St) : St :=
  let s1 := { s with taken := s.taken + 1 }
  if underLimit c s.count then push c s1 s.taken else { s1 with ctrl := .sending s.taken }

/-- a slot became free while `send` was waiting -/
def resume (c : Cfg) (s : St) : St :=
  match s.ctrl with
  | .sending j => if underLimit c s.count then push c s j else s
  | _ => s

/-- replace member `m` by `m'` -/
def setMember (ms : List Member) (m m' : Member) : List Member :=
  ms.map (fun x => if x = m then m' else x)

def running (ctrl : Ctrl) : Bool :=
  match ctrl with
  | .loop | .sending _ | .flushing => true
  | _ => false

/-- member `m` finished its last stage with result `ok` / value `v` -/
def complete (c : Cfg) (s : St) (m : Member) (ok : Bool) (v : Nat) : St :=
  let s1 := { s with members := s.members.filter (· != m) }
  match c.term with
  | .forEach => resume c { s1 with count := s1.count - 1 }
  | .tryForEach =>
    if ok then resume c { s1 with count := s1.count - 1 }
    else { s1 with count := s1.count - 1, ctrl := .failing v }
  | .collectVec => { s1 with out := s1.out ++ [(m.j, c.idxAt c.stages m.j)] }
  | .collectRes =>
    if ok then { s1 with out := s1.out ++ [(m.j, c.idxAt c.stages m.j)] }
    else { s1 with ctrl := .failing v }

/-- members of a pipeline without any closure complete silently -/
def silent (c : Cfg) (s : St) : List (Nat × List Nat) :=
  if c.stages = 0 then s.members.map (fun m => (m.j, c.idxAt 0 m.j)) else []

def quiescent (c : Cfg) (s : St) : Bool :=
  s.ctrl = .flushing && (s.members.isEmpty || c.stages = 0)

def step (c : Cfg) (s : St) : CoEv → Option St
  | .topBegin =>
    if !s.inTop && !s.dropped && s.ctrl != .done then some { s with inTop := true } else none
  | .src r =>
    if s.inTop && s.ctrl = .loop && !s.srcFin then
      match r with
      | .pend => some s
      | .fin => some { s with srcFin := true, ctrl := .flushing }
      | .item _ => some (takeItem c s)
      | _ => none
    else none
  | .call stage j idx k =>
    if s.inTop && running s.ctrl && !s.live.contains k && idx = c.idxAt stage j then
      match s.members.find? (fun m => m.j = j) with
      | some m =>
        if m.stage = stage && m.cur = none && stage < c.stages then
          some { s with members := setMember s.members m { m with cur := some k }, live := k :: s.live }
        else none
      | none => none
    else none
  | .work k r =>
    if s.inTop && running s.ctrl then
      match s.members.find? (fun m => m.cur = some k) with
      | some m =>
        (match r with
         | .pend => some s
         | .ready ok v =>
           -- only the last closure of a fallible operation can fail (Rust's types: map and
           -- for_each closures return plain values)
           if !ok && !(m.stage + 1 = c.stages && (c.term = .tryForEach || c.term = .collectRes)) then none
           else if m.stage + 1 < c.stages then
             some { s with members := setMember s.members m { m with stage := m.stage + 1, cur := none } }
           else some (complete c s m ok v)
         | _ => none)
      | none => none
    else none
  | .workDrop k =>
    if s.live.contains k then
      -- a work future that is still running is only dropped by cancellation
      if s.members.any (fun m => m.cur = some k) && running s.ctrl && !s.dropped then none
      else some { s with live := s.live.filter (· != k),
                         members := s.members.filter (fun m => m.cur != some k) }
    else none
  | .valDrop _ => some s
  | .srcDrop => some s
  | .topEnd o =>
    if s.inTop then
      match o with
      | .pending =>
        if quiescent c s then none
        else (match s.ctrl with | .failing _ => none | _ => some { s with inTop := false })
      | .unit =>
        if c.term = .forEach && s.ctrl = .flushing && s.members.isEmpty
        then some { s with inTop := false, ctrl := .done } else none
      | .ok =>
        if c.term = .tryForEach && s.ctrl = .flushing && s.members.isEmpty
        then some { s with inTop := false, ctrl := .done } else none
      | .err e =>
        if c.term = .tryForEach && s.ctrl = .failing e
        then some { s with inTop := false, ctrl := .done } else none
      | .vec items =>
        if c.term = .collectVec && quiescent c s &&
            (if c.stages = 0 then items.isPerm (s.out ++ silent c s) else items = s.out)
        then some { s with inTop := false, ctrl := .done, members := [] } else none
      | .resOk items =>
        if c.term = .collectRes && s.ctrl = .flushing && s.members.isEmpty && items = s.out
        then some { s with inTop := false, ctrl := .done } else none
      | .resErr e =>
        if c.term = .collectRes && s.ctrl = .failing e
        then some { s with inTop := false, ctrl := .done } else none
    else none
  | .dropBegin => if !s.inTop && !s.dropped then some { s with dropped := true } else none
  | .dropEnd => if s.dropped && s.live.isEmpty then some s else none

/-- run the acceptor over a trace given NEWEST FIRST (like every monitor of this project);
    `none` = the trace is not one the algorithm can produce -/
def run (c : Cfg) : List CoEv → Option St
  | [] => some (init c)
  | e :: t =>
    match run c t with
    | some s => step c s e
    | none => none

def accepts (c : Cfg) (t : List CoEv) : Bool := (run c t).isSome

/-- number of events (oldest first) accepted before the first rejection -/
def acceptedPrefix (c : Cfg) : St → List CoEv → Nat → Nat
  | _, [], k => k
  | s, e :: rest, k =>
    match step c s e with
    | some s' => acceptedPrefix c s' rest (k + 1)
    | none => k

end Co
end Fc
