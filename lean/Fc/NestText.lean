/-
  Fc/NestText.lean — line protocol and projections for nested cases.
  header: CASE <id> nest <mode> <outer family> <n> <spec>,   spec = comma list of `-` | `<inner family>:<k>`
  The flattened trace of the real code is compared with the lock-step model instance by instance:
  the outer projection (events of the outer combinator and its direct children) and one inner
  projection per nested child (the wrapper's poll is the inner instance's top-level poll).
  Waker identities are not compared (the harness names sub-wakers in order of first appearance).
-/
import Fc.Text
import Fc.Nest
import Fc.MonNest

namespace Fc
namespace Nest

def parseOuter : String → Option Fam
  | "join" => some .joinSlice
  | "race" => some .race
  | "merge" => some .merge
  | "chain" => some .chain
  | "zip" => some .zip
  | _ => none

def parseInner : String → Option Fam
  | "join" => some .joinSlice
  | "race" => some .race
  | "tryjoin" => some .tryJoinSlice
  | "merge" => some .merge
  | "chain" => some .chain
  | "zip" => some .zip
  | _ => none

def parseSpec (s : String) : Option (List (Option (Fam × Nat))) :=
  (s.splitOn ",").mapM (fun x =>
    if x = "-" then some none
    else match x.splitOn ":" with
      | [f, k] => do some (some ((← parseInner f), (← k.toNat?)))
      | _ => none)

def outcomeKind : Outcome → String
  | .pending => "P" | .ready _ _ => "R" | .some _ _ => "S" | .none => "N" | .panicked => "X" | .misuse => "M"

def resKind : Res → String
  | .pend => "P" | .ready _ _ => "R" | .item _ => "S" | .fin => "N" | .panic => "X"

/-- canonical line of an outer-level model event (`nested c` = child `c` is a wrapper) -/
def outerLine (nested : Nat → Bool) : Ev → Option String
  | .pollBegin w => some s!"pb {w}"
  | .pollEnd o => some s!"pe {o.text}"
  | .childBegin c slot _ => some s!"cb {c} {slot}"
  | .childEnd c r => some s!"ce {c} {r.text}"
  | .fired c age _ => if nested c then none else some s!"fi {c} {age}"
  | .woke w => some s!"wo {w}"
  | .childDropped c => some s!"cd {c}"
  | .dropBegin => some "db"
  | .dropEnd => some "de"
  | _ => none

/-- the same projection of an implementation line -/
def outerImplLine (nested : Nat → Bool) (ws : List String) : Option String :=
  match ws with
  | ["pb", w] => some s!"pb {w}"
  | "pe" :: o => some (" ".intercalate ("pe" :: o))
  | ["cb", c, slot, _] => if (c.toNat?.getD 0) < 100 then some s!"cb {c} {slot}" else none
  | ["ce", c, r] => if (c.toNat?.getD 0) < 100 then some s!"ce {c} {r}" else none
  | ["fi", c, age, _] =>
    let ci := c.toNat?.getD 0
    if ci < 100 && !nested ci then some s!"fi {c} {age}" else none
  | ["wo", w] => some s!"wo {w}"
  | ["cd", c] => if (c.toNat?.getD 0) < 100 then some s!"cd {c}" else none
  | ["db"] => some "db"
  | ["de"] => some "de"
  | _ => none

/-- canonical line of an event of the inner instance of nested child `c` -/
def innerLine : Ev → Option String
  | .pollBegin _ => some "pb"
  | .pollEnd o => some s!"pe {outcomeKind o}"
  | .childBegin g slot _ => some s!"cb {g} {slot}"
  | .childEnd g r => some s!"ce {g} {r.text}"
  | .fired g age _ => some s!"fi {g} {age}"
  | .childDropped g => some s!"cd {g}"
  | _ => none

def innerImplLine (c : Nat) (ws : List String) : Option String :=
  let mine := fun (s : String) => match s.toNat? with
    | some i => 100 * (c + 1) ≤ i && i < 100 * (c + 2)
    | none => false
  let loc := fun (s : String) => toString ((s.toNat?.getD 0) % 100)
  match ws with
  | ["cb", x, slot, _] => if x.toNat? = some c then some "pb" else if mine x then some s!"cb {loc x} {slot}" else none
  | ["ce", x, r] =>
    if x.toNat? = some c then
      some ("pe " ++ (match (parseRes r) with | some res => resKind res | none => "?"))
    else if mine x then some s!"ce {loc x} {r}" else none
  | ["fi", x, age, _] => if mine x then some s!"fi {loc x} {age}" else none
  | ["cd", x] => if mine x then some s!"cd {loc x}" else none
  | _ => none

end Nest
end Fc
