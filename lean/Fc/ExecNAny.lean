/-
  Fc/ExecNAny.lean — the wake-only executor of Fc/ExecN.lean (a NEST: an outer combinator some of
  whose children are inner combinator instances over scripted leaves) with an ARBITRARY environment
  schedule, as Fc/ExecAny.lean does for the flat families.

  In Fc/ExecN.lean the environment, when the task has not been woken, prods `ExecN.firstWaiting`:
  the FIRST waiting plain child or leaf in scan order.  Here the environment is a parameter:

    * `pick : Nat → Nest.St → Nat` — round number and current state ↦ the GLOBAL id of the scripted
      child the environment would like to let progress next: a plain outer child `c` (id `c < 100`),
      or leaf `g` of the inner instance in outer slot `c` (id `Nest.leafId c g = 100 * (c + 1) + g`;
      decoded as by `Nest.fire`: slot `id / 100 - 1`, leaf `id % 100`).  If that id names a waiting
      child (`isWaiting`: exactly the tests of `ExecN.firstWaiting` — `ExecN.waitingPlain` for an
      existing plain child, `ExecN.waitingLeaf` for an existing leaf of an existing nested child)
      it is prodded (`Nest.fire nc s id 0`: the waker it was handed in its most recent poll);
      otherwise the environment falls back to `ExecN.firstWaiting`.  A schedule therefore cannot
      simply refuse to make progress — fairness is not the point here, safety of ANY choice is.
    * `round` / `runFor` — the executor of Fc/ExecN.lean with that choice; `runFor` threads the
      round number (fuel, current round number, state).

  The busy environment (`roundB` / `runForB`) additionally fires, in the same environment round,
  arbitrary further wakers: `pre r s` before and `post r s` after the prod, each a list of
  `(global id, age)` pairs as for `Nest.fire` (age 0 = the waker handed in the most recent poll, age
  `a` = the waker handed `a` polls earlier: a STALE one; any id — plain children, nested children's
  own wakers (id `c < 100` of a nested slot), leaves, also resolved ones, leaves of RELEASED inner
  instances, ids that name nothing; several of them).  `round` is `roundB` with both lists empty.
-/
import Fc.ExecN

namespace Fc
namespace ExecNAny
open Mon Nest

/-- does the global id `id` name a waiting scripted child: an existing plain outer child that is
    waiting (`ExecN.waitingPlain`), or an existing leaf of an existing nested child that is waiting
    (`ExecN.waitingLeaf`) — the tests of `ExecN.firstWaiting` -/
def isWaiting (nc : NCase) (s : St) (id : Nat) : Bool :=
  if id < 100 then decide (id < nc.n) && ExecN.waitingPlain nc s id
  else
    decide (id / 100 - 1 < nc.n) &&
      (match nc.inner (id / 100 - 1) with
       | none => false
       | some (_, k) => decide (id % 100 < k) && ExecN.waitingLeaf nc s (id / 100 - 1) (id % 100))

/-- the child the environment prods (global id): the schedule's pick if that names a waiting child,
    otherwise the first waiting child; `none` if no child is waiting -/
def choose (nc : NCase) (pick : Nat → St → Nat) (r : Nat) (s : St) : Option Nat :=
  if isWaiting nc s (pick r s) = true then some (pick r s) else ExecN.firstWaiting nc s

/-- one round of executor + environment under the schedule `pick`; `r` is the round number;
    `none` = nothing left to do (final outcome, or stuck: not woken and nothing can be prodded) -/
def round (nc : NCase) (pick : Nat → St → Nat) (r : Nat) (s : St) : Option St :=
  if Exec.finalOut (lastOut s.out.w.trace) then none
  else if Exec.shouldPoll s.out.w.trace then
    some (Nest.poll nc s (Exec.pollCount s.out.w.trace + 1))
  else match choose nc pick r s with
    | some id => some (Nest.fire nc s id 0)
    | none => none

/-- run up to `fuel` rounds, starting with round number `r` -/
def runFor (nc : NCase) (pick : Nat → St → Nat) : Nat → Nat → St → St
  | 0, _, s => s
  | k + 1, r, s => match round nc pick r s with
    | some s' => runFor nc pick k (r + 1) s'
    | none => s

/-! ### the busy environment: several wakers, also stale ones, in one environment round -/

/-- invoke a list of wakers, `(global id, age)` as for `Nest.fire`, in order -/
def fires (nc : NCase) (s : St) : List (Nat × Nat) → St
  | [] => s
  | p :: l => fires nc (Nest.fire nc s p.1 p.2) l

/-- one round under the schedule `pick` with the extra wake-ups `pre` (before the prod) and `post`
    (after it); the child to prod is chosen in the state the round starts from -/
def roundB (nc : NCase) (pick : Nat → St → Nat) (pre post : Nat → St → List (Nat × Nat))
    (r : Nat) (s : St) : Option St :=
  if Exec.finalOut (lastOut s.out.w.trace) then none
  else if Exec.shouldPoll s.out.w.trace then
    some (Nest.poll nc s (Exec.pollCount s.out.w.trace + 1))
  else match choose nc pick r s with
    | some id => some (fires nc (Nest.fire nc (fires nc s (pre r s)) id 0) (post r s))
    | none => none

def runForB (nc : NCase) (pick : Nat → St → Nat) (pre post : Nat → St → List (Nat × Nat)) :
    Nat → Nat → St → St
  | 0, _, s => s
  | k + 1, r, s => match roundB nc pick pre post r s with
    | some s' => runForB nc pick pre post k (r + 1) s'
    | none => s

end ExecNAny
end Fc
