/-
  Fc/Monitors.lean — the properties as decidable predicates over event traces.

  Every function here takes the trace NEWEST FIRST (the representation `World.trace` uses), is
  defined by structural recursion on it, and is what both sides use: the theorems in
  `FcProps/*` are statements `holds_Cxx … (model trace) = true`, and the driver evaluates the
  same `holds_Cxx` on the trace the real code produced.
-/
import Fc.Case

namespace Fc
namespace Mon

/-! ### ghost observations of a trace prefix -/

/-- the task waker of the most recent top-level poll -/
def cur : List Ev → Option Nat
  | [] => none
  | .pollBegin w :: _ => some w
  | _ :: t => cur t

/-- are we between a `pollBegin` and its `pollEnd`? -/
def inPoll : List Ev → Bool
  | [] => false
  | .pollBegin _ :: _ => true
  | .pollEnd _ :: _ => false
  | _ :: t => inPoll t

/-- outcome of the most recent completed top-level poll -/
def lastOut : List Ev → Option Outcome
  | [] => none
  | .pollEnd o :: _ => some o
  | _ :: t => lastOut t

/-- has the combinator not been dropped yet? -/
def alive : List Ev → Bool
  | [] => true
  | .dropBegin :: _ => false
  | _ :: t => alive t

/-- was the current task waker invoked since the most recent `pollBegin`? -/
def wokeSince : List Ev → Bool
  | [] => false
  | .pollBegin _ :: _ => false
  | .woke w :: t => wokeSince t || (cur t == some w)
  | _ :: t => wokeSince t

/-- result of child `c`'s most recent poll -/
def lastRes : List Ev → Nat → Option Res
  | [], _ => none
  | .childEnd c' r :: t, c => if c' = c then some r else lastRes t c
  | _ :: t, c => lastRes t c

/-- waker handed to child `c` in its most recent poll -/
def lastWk : List Ev → Nat → Option Wk
  | [], _ => none
  | .childBegin c' _ wk :: t, c => if c' = c then some wk else lastWk t c
  | _ :: t, c => lastWk t c

def everPolled : List Ev → Nat → Bool
  | [], _ => false
  | .childBegin c' _ _ :: t, c => c' = c || everPolled t c
  | _ :: t, c => everPolled t c

/-- was child `c` polled since the most recent `pollBegin`? -/
def polledSince : List Ev → Nat → Bool
  | [], _ => false
  | .pollBegin _ :: _, _ => false
  | .childBegin c' _ _ :: t, c => c' = c || polledSince t c
  | _ :: t, c => polledSince t c

/-- has a waker equal to the one child `c` holds been invoked since `c`'s latest poll began? -/
def owes : List Ev → Nat → Bool
  | [], _ => false
  | .childBegin c' _ _ :: t, c => if c' = c then false else owes t c
  | .fired _ _ (some wk) :: t, c => owes t c || (lastWk t c == some wk)
  | _ :: t, c => owes t c

/-- was the child released (dropped in place, removed, or dropped with the combinator)? -/
def gone : List Ev → Nat → Bool
  | [], _ => false
  | .childDropped c' :: t, c => c' = c || gone t c
  | _ :: t, c => gone t c

/-- the key a group member was inserted under -/
def keyOf : List Ev → Nat → Option Nat
  | [], _ => none
  | .inserted c' k :: t, c => if c' = c then some k else keyOf t c
  | _ :: t, c => keyOf t c

/-- the trace as it was when the most recent top-level poll began -/
def atPollBegin : List Ev → List Ev
  | [] => []
  | .pollBegin _ :: t => t
  | _ :: t => atPollBegin t

/-- does the event start a top-level operation (when it occurs outside a poll)? -/
def startsOp : Ev → Bool
  | .pollBegin _ | .fired _ _ _ | .dropBegin | .inserted _ _ | .removed _ _ | .answer _ _
  | .childDropped _ => true
  | _ => false

/-! ### C01 — no lost wake-ups -/

/-- no owed wake-up is outstanding -/
def quiet (n : Nat) (t : List Ev) : Bool :=
  !(alive t && lastOut t == some .pending) ||
  (List.range n).all (fun c =>
    !(lastRes t c == some .pend && !gone t c && owes t c) || wokeSince t)

/-- `quiet` at every operation boundary of the prefixes -/
def c01Boundaries (n : Nat) : List Ev → Bool
  | [] => true
  | e :: t => c01Boundaries n t && (!(startsOp e && !inPoll t) || quiet n t)

/-- a poll only unwinds when a child panicked in it; waking never panics -/
def panicSince : List Ev → Bool
  | [] => false
  | .pollBegin _ :: _ => false
  | .childEnd _ .panic :: _ => true
  | _ :: t => panicSince t

def c01NoPanic : List Ev → Bool
  | [] => true
  | .wakePanic :: _ => false
  | .pollEnd .panicked :: t => c01NoPanic t && panicSince t
  | _ :: t => c01NoPanic t

def holds_C01 (n : Nat) (t : List Ev) : Bool :=
  c01Boundaries n t && (inPoll t || quiet n t) && c01NoPanic t

/-! ### C16 — selective polling (std mode) -/

/-- since child `c`'s previous poll began, was the sub-waker of `slot` invoked? -/
def firedSubSince : List Ev → Nat → Nat → Bool
  | [], _, _ => false
  | .childBegin c' _ _ :: t, c, slot => if c' = c then false else firedSubSince t c slot
  | .fired _ _ (some (.sub s)) :: t, c, slot => s = slot || firedSubSince t c slot
  | _ :: t, c, slot => firedSubSince t c slot

def holds_C16 : List Ev → Bool
  | [] => true
  | .childBegin c slot _ :: t =>
    holds_C16 t && (lastRes t c != some .pend || firedSubSince t c slot)
  | _ :: t => holds_C16 t

/-! ### C20 — concurrent evaluation -/

/-- is `c` a child the combinator currently owns?  `fixed`: children `0..n` of a fixed
    combinator; otherwise group members (inserted, neither finished nor removed) -/
def owned (fixed : Bool) (n : Nat) (t : List Ev) (c : Nat) : Bool :=
  if fixed then c < n else (keyOf t c).isSome && !gone t c

def c20At (fixed : Bool) (n : Nat) (t : List Ev) : Bool :=
  (List.range n).all (fun c =>
    !(owned fixed n t c) ||
      (everPolled t c &&
        (!(lastRes (atPollBegin t) c == some .pend && owes (atPollBegin t) c) || polledSince t c)))

def holds_C20 (fixed : Bool) (n : Nat) : List Ev → Bool
  | [] => true
  | .pollEnd .pending :: t => holds_C20 fixed n t && c20At fixed n t
  | _ :: t => holds_C20 fixed n t

/-! ### C03 — poll discipline -/

def finished (t : List Ev) (c : Nat) : Bool :=
  match lastRes t c with
  | some (.ready _ _) | some .fin => true
  | _ => false

/-- did a top-level poll already produce the final result?  (`none` is final for plain
    streams, never for groups, which can be refilled) -/
def finalSeen (group : Bool) : List Ev → Bool
  | [] => false
  | .pollEnd (.ready _ _) :: _ => true
  | .pollEnd .none :: t => !group || finalSeen group t
  | _ :: t => finalSeen group t

def holds_C03 (group : Bool) : List Ev → Bool
  | [] => true
  | .childBegin c _ _ :: t =>
    holds_C03 group t && !finished t c && inPoll t && !finalSeen group t && !gone t c && alive t
  | _ :: t => holds_C03 group t

/-! ### C02 — exactly-once ownership -/

def countEv (p : Ev → Bool) (t : List Ev) : Nat := (t.filter p).length

def producedVals : List Ev → List Nat
  | [] => []
  | .childEnd _ (.ready _ v) :: t => v :: producedVals t
  | .childEnd _ (.item v) :: t => v :: producedVals t
  | _ :: t => producedVals t

def returnedVals : List Ev → List Nat
  | [] => []
  | .pollEnd (.ready _ vs) :: t => vs ++ returnedVals t
  | .pollEnd (.some _ vs) :: t => vs ++ returnedVals t
  | _ :: t => returnedVals t

def droppedVals : List Ev → List Nat
  | [] => []
  | .valDropped v :: t => v :: droppedVals t
  | _ :: t => droppedVals t

def droppedChildren : List Ev → List Nat
  | [] => []
  | .childDropped c :: t => c :: droppedChildren t
  | _ :: t => droppedChildren t

/-- nothing is released after the destructor returned -/
def quietAfterDrop : List Ev → Bool
  | [] => true
  | .dropEnd :: _ => true
  | .childDropped _ :: _ => false
  | .valDropped _ :: _ => false
  | _ :: t => quietAfterDrop t

def dropCompleted (t : List Ev) : Bool := t.any (· == .dropEnd)

/-- for a history that ends with the combinator dropped -/
def holds_C02 (fixed : Bool) (n : Nat) (t : List Ev) : Bool :=
  !dropCompleted t ||
  (quietAfterDrop t &&
   (List.range n).all (fun c =>
      (droppedChildren t).count c = (if fixed || (keyOf t c).isSome then 1 else 0)) &&
   (producedVals t).all (fun v =>
      (returnedVals t).count v + (droppedVals t).count v = (producedVals t).count v) &&
   (returnedVals t).all (fun v => (producedVals t).contains v) &&
   (droppedVals t).all (fun v => (producedVals t).contains v))

end Mon
end Fc
