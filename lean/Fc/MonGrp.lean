/-
  Fc/MonGrp.lean — C11 / C12: FutureGroup and StreamGroup as decidable predicates over event traces
  (NEWEST FIRST).  Group events: `inserted c key` (insert returned `key` for member `c`),
  `removed key present` (what `remove(key)` answered), `answer q a` (a query: q = 0 `len`,
  1 `is_empty`, 3 `capacity`, 100+k `contains_key(k)`, 99 = the operation panicked), besides the poll / child events.
-/
import Fc.MonFun

namespace Fc
namespace Mon

/-- does this answer end a member's life in the group? -/
def Res.finishes : Res → Bool
  | .ready _ _ | .fin => true
  | _ => false

/-- the member currently stored under `key`: the latest insert under that key, unless it was
    removed or has finished since -/
def memberAt : List Ev → Nat → Option Nat
  | [], _ => none
  | .inserted c k' :: t, k => if k' = k then some c else memberAt t k
  | .removed k' true :: t, k => if k' = k then none else memberAt t k
  | .childEnd c r :: t, k => if Res.finishes r && memberAt t k == some c then none else memberAt t k
  | _ :: t, k => memberAt t k

/-- members inserted and neither finished nor removed: inserts − removals − completions -/
def lenOf : List Ev → Nat
  | [] => 0
  | .inserted _ _ :: t => lenOf t + 1
  | .removed _ true :: t => lenOf t - 1
  | .childEnd _ r :: t => if Res.finishes r then lenOf t - 1 else lenOf t
  | _ :: t => lenOf t

/-- did a member deliver (an output / an item) in this segment? -/
def delivered : List Ev → Bool
  | [] => false
  | .childEnd _ (.ready _ _) :: _ => true
  | .childEnd _ (.item _) :: _ => true
  | _ :: t => delivered t

/-- verdict on the outcome of a poll; `t` = the trace before its `pollEnd` -/
def grpAt (stream keyed : Bool) (t : List Ev) : Outcome → Bool
  | .some key [v] =>
    match (childResults (sincePoll t)).head? with
    | some (c, .ready _ v') => !stream && v' == v && key == (if keyed then (keyOf t c).getD 0 else 0)
    | some (c, .item v') => stream && v' == v && key == (if keyed then (keyOf t c).getD 0 else 0)
    | _ => false
  | .pending => lenOf t != 0 && !delivered (sincePoll t)
  | .none => lenOf t == 0 && !delivered (sincePoll t)
  | .panicked => true
  | .misuse => !alive t || panickedSeen t
  | _ => false

/-- C11 (`stream = false`) / C12 (`stream = true`); `nch` bounds the member ids in the trace -/
def holds_G (stream keyed : Bool) (nch : Nat) : List Ev → Bool
  | [] => true
  | .pollEnd o :: t =>
    holds_G stream keyed nch t && grpAt stream keyed t o &&
      yielded (.pollEnd o :: t) == producedVals t &&
      (List.range nch).all (fun c => !finished t c || gone t c)
  | .childBegin c slot _ :: t =>
    holds_G stream keyed nch t && memberAt t slot == some c && !delivered (sincePoll t)
  | .inserted c k :: t =>
    holds_G stream keyed nch t && (memberAt t k).isNone && (keyOf t c).isNone && !inPoll t
  | .removed k p :: t =>
    holds_G stream keyed nch t &&
      (match memberAt t k with
       | some c => p && gone t c
       | none => !p)
  | .answer q a :: t =>
    holds_G stream keyed nch t &&
      (if q = 99 then false   -- the harness logs `answer 99` when a group operation panicked
       else if q = 0 then a == lenOf t
       else if q = 1 then a == (if lenOf t == 0 then 1 else 0)
       else if q = 3 then decide (lenOf t ≤ a)
       else if 100 ≤ q then a == (if (memberAt t (q - 100)).isSome then 1 else 0)
       else true)
  | _ :: t => holds_G stream keyed nch t

def holds_C11 (keyed : Bool) (nch : Nat) (t : List Ev) : Bool := holds_G false keyed nch t
def holds_C12 (keyed : Bool) (nch : Nat) (t : List Ev) : Bool := holds_G true keyed nch t

end Mon
end Fc
