/-
  Fc/Snap.lean — the model's view of the readiness bookkeeping after every operation, in the text
  form the `fc-verif` hook of the crate reports (`<bits>/<ready count>/<p|->`): the correspondence
  check compares internal state, not only observable events.
-/
import Fc.Case

namespace Fc

def World.snap (w : World) : String :=
  String.ofList ((List.range w.cap).map (fun i => if w.bits i then '1' else '0'))
    ++ "/" ++ toString w.count ++ "/" ++ (if w.parent.isSome then "p" else "-")

def Op.isDrop : Op → Bool
  | .drop => true
  | _ => false

/-- the snapshot after every operation other than `drop` -/
def snapsAux {σ : Type} (step : Eng σ → Op → Eng σ) : Eng σ → List Op → List String
  | _, [] => []
  | e, op :: ops =>
    let e' := step e op
    (if op.isDrop then [] else [e'.w.snap]) ++ snapsAux step e' ops

def Case.snaps (c : Case) : List String :=
  if c.fam.isGroup then
    snapsAux GEng.step (GEng.init (c.fam = .strGroup) c.keyed c.mode c.scripts) c.ops
  else
    snapsAux (FEng.step c.fam.policy) (FEng.init c.fam c.mode c.n c.scripts) c.ops

/-- does the case keep readiness bits at all? -/
def Case.hasKernel (c : Case) : Bool :=
  if c.fam.isGroup then c.mode == .std else c.fam.modeOf c.mode == .std

/-! ### the poll-state table (`Debug` of the array / Vec `join` and `try_join`) -/

def PS.text : PS → String
  | .none => "None"
  | .pending => "Pending"
  | .ready => "Ready"

/-- what `{:?}` of the real combinator prints: the list of its `PollState`s -/
def Fix.psText (s : Fix) : String :=
  "[" ++ ", ".intercalate ((List.range s.n).map (fun i => (s.st i).text)) ++ "]"

def Op.isPoll : Op → Bool
  | .poll _ => true
  | _ => false

/-- the table after every poll of the history -/
def psAux (P : Policy Fix) : Eng Fix → List Op → List String
  | _, [] => []
  | e, op :: ops =>
    let e' := FEng.step P e op
    (if op.isPoll then [e'.s.psText] else []) ++ psAux P e' ops

def Case.psTables (c : Case) : List String :=
  psAux c.fam.policy (FEng.init c.fam c.mode c.n c.scripts) c.ops

/-- the families whose real `Debug` output is the table -/
def Case.hasPsTable (c : Case) : Bool :=
  c.fam == .joinSlice || c.fam == .tryJoinSlice

/-- compare with the implementation's snapshots (`-`: it has not touched a readiness set yet);
    result: (agree, number of snapshots compared) -/
def snapsAgree : List String → List String → Bool × Nat
  | [], [] => (true, 0)
  | m :: ms, i :: is =>
    let (ok, k) := snapsAgree ms is
    if i = "-" then (ok, k) else (ok && m = i, k + 1)
  | _, _ => (false, 0)

end Fc
