/-
  Fc/Nest.lean — one level of nesting: an outer combinator some of whose children are themselves
  combinators ("inner" instances) over scripted leaves.  The nest is the lock-step composition of the
  existing engine instances, nothing new is modelled:

    * the outer instance sees a nested child `c` as an ordinary child whose answer is the outcome of
      the inner instance's poll, and whose in-poll wake-ups are the wake-ups the inner instance
      forwarded to the waker it was handed (its "task waker");
    * the inner instance is polled with the waker the outer instance hands to child `c`
      (identified by the number of the poll), and a wake-up it forwards to the waker of its
      `k`-th poll is an invocation of the waker the outer instance handed to `c` in that poll.

  Leaves of the inner instance in outer slot `c` have global ids `100*(c+1)+g`.
  Restriction (kept by the generator): wake-ups fired from inside a leaf's poll target leaves of
  the same inner instance; those fired from inside a plain outer child's poll target outer children.
-/
import Fc.Monitors

namespace Fc
namespace Nest

structure NCase where
  mode    : Mode
  outer   : Fam
  n       : Nat
  inner   : Nat → Option (Fam × Nat)     -- nested child `c`: family and number of leaves
  scripts : Nat → List Step              -- plain outer children by id `c`, leaves by global id
  ops     : List Op

def leafId (c g : Nat) : Nat := 100 * (c + 1) + g

structure St where
  out   : Eng Fix
  inn   : Nat → Eng Fix      -- inner instance of nested child `c`
  polls : Nat → Nat          -- how often nested child `c` has been polled
  gone  : Nat → Bool         -- the outer instance has released nested child `c` (and with it the inner instance)

/-- the answer of a nested child, from the outcome of the inner instance's poll -/
def resOfOutcome (c seq : Nat) : Outcome → Res
  | .pending => .pend
  | .ready _ _ => .ready true (9000 + c)
  | .some _ _ => .item (9000 + 100 * c + seq)
  | .none => .fin
  | .panicked => .panic
  | .misuse => .panic

/-- events of the inner instance since its latest `pollBegin` (newest first) -/
def sincePB : List Ev → List Ev
  | [] => []
  | .pollBegin _ :: _ => []
  | e :: t => e :: sincePB t

def lastOutcome : List Ev → Outcome
  | [] => .pending
  | .pollEnd o :: _ => o
  | _ :: t => lastOutcome t

/-- number of items the nested child has delivered so far -/
def itemsSoFar : List Ev → Nat
  | [] => 0
  | .pollEnd (.some _ _) :: t => itemsSoFar t + 1
  | _ :: t => itemsSoFar t

/-- wake-ups of its task waker `k` the inner instance performed in a trace segment, oldest first -/
def wokes (seg : List Ev) : List Nat :=
  (seg.reverse.filterMap (fun e => match e with | .woke k => some k | _ => none))

def innerInit (nc : NCase) (c : Nat) : Eng Fix :=
  match nc.inner c with
  | some (fam, k) =>
    -- in-poll wake-ups of a leaf name leaves of the same instance by global id
    FEng.init fam nc.mode k (fun g =>
      (nc.scripts (leafId c g)).map (fun st => { st with fires := st.fires.map (fun p => (p.1 % 100, p.2)) }))
  | none => FEng.init .joinSlice nc.mode 0 (fun _ => [])

def init (nc : NCase) : St :=
  { out := FEng.init nc.outer nc.mode nc.n (fun c => if (nc.inner c).isSome then [] else nc.scripts c),
    inn := fun c => innerInit nc c,
    polls := fun _ => 0, gone := fun _ => false }

def innerPolicy (nc : NCase) (c : Nat) : Policy Fix :=
  match nc.inner c with
  | some (fam, _) => fam.policy
  | none => Fc.joinSlice

/-- was child `c` polled since the latest `pollBegin`? -/
def polledNow : List Ev → Nat → Bool
  | [], _ => false
  | .pollBegin _ :: _, _ => false
  | .childBegin c' _ _ :: t, c => c' = c || polledNow t c
  | _ :: t, c => polledNow t c

/-- was child `c` released since the latest `pollBegin` / `dropBegin`? -/
def droppedNow : List Ev → Nat → Bool
  | [], _ => false
  | .pollBegin _ :: _, _ => false
  | .dropBegin :: _, _ => false
  | .childDropped c' :: t, c => c' = c || droppedNow t c
  | _ :: t, c => droppedNow t c

/-- one top-level poll of the nest -/
def poll (nc : NCase) (s : St) (w : Nat) : St :=
  let nested := (List.range nc.n).filter (fun c => (nc.inner c).isSome)
  -- speculate: what would each inner instance answer if it is polled now?
  let spec := fun c => Eng.poll (innerPolicy nc c) (s.inn c) (s.polls c + 1)
  let step := fun c =>
    let e' := spec c
    let seg := sincePB e'.w.trace
    (⟨resOfOutcome c (itemsSoFar e'.w.trace) (lastOutcome e'.w.trace),
      (wokes seg).map (fun k => (c, s.polls c + 1 - k))⟩ : Step)
  let scripts' := fun c => if (nc.inner c).isSome then [step c] else s.out.w.scripts c
  let out1 := Eng.poll nc.outer.policy { s.out with w := { s.out.w with scripts := scripts' } } w
  let polled := fun c => nested.contains c && polledNow out1.w.trace c
  -- a nested child the outer instance releases in this poll takes its inner instance with it
  let rel := fun c => nested.contains c && !s.gone c && droppedNow out1.w.trace c
  let inn1 := fun c => if polled c then spec c else s.inn c
  { out := { out1 with w := { out1.w with scripts := fun c => if (nc.inner c).isSome then [] else out1.w.scripts c } },
    inn := fun c => if rel c then Eng.drop (innerPolicy nc c) (inn1 c) else inn1 c,
    polls := fun c => if polled c then s.polls c + 1 else s.polls c,
    gone := fun c => s.gone c || rel c }

/-- a wake-up between polls: of a plain outer child / a nested child's own waker, or of a leaf -/
def fire (nc : NCase) (s : St) (id age : Nat) : St :=
  if id < 100 then { s with out := s.out.fire id age }
  else
    let c := id / 100 - 1
    let g := id % 100
    let before := (s.inn c).w.trace.length
    let inn' := (s.inn c).fire g age
    let seg := inn'.w.trace.take (inn'.w.trace.length - before)
    let out' := (wokes seg).foldl (fun o k => o.fire c (s.polls c - k)) s.out
    { s with out := out', inn := fun c' => if c' = c then inn' else s.inn c' }

def drop (nc : NCase) (s : St) : St :=
  { s with out := Eng.drop nc.outer.policy s.out,
           inn := fun c => if (nc.inner c).isSome && !s.gone c then Eng.drop (innerPolicy nc c) (s.inn c) else s.inn c,
           gone := fun c => s.gone c || (nc.inner c).isSome }

def step (nc : NCase) (s : St) : Op → St
  | .poll w => poll nc s w
  | .fire c a => fire nc s c a
  | .drop => drop nc s
  | _ => s

def run (nc : NCase) : St := nc.ops.foldl (step nc) (init nc)

/-! ### C01 for the nest

  `quietAt` is C01's `quiet` for the composed system, read off the component traces at an operation
  boundary: while the nest (the outer instance) is alive and its last poll returned Pending,
    * an owed wake-up of a direct child of the outer instance (plain child or nested child: the
      waker handed to it was invoked since its latest poll began, and its latest answer was
      Pending) implies that the task waker of the latest top-level poll has been woken since
      that poll began;
    * the same for every leaf of an inner instance that is itself waiting (the nested child's
      latest answer was Pending and it has not been released): an owed wake-up of the leaf implies
      that the TASK has been woken — the wake-up travelled through both levels. -/

open Mon in
def quietAt (nc : NCase) (s : St) : Bool :=
  let to := s.out.w.trace
  !(alive to && lastOut to == some .pending) ||
  (List.range nc.n).all (fun c =>
    (!(lastRes to c == some .pend && !gone to c && owes to c) || wokeSince to) &&
    (match nc.inner c with
     | none => true
     | some (_, k) =>
       !(lastRes to c == some .pend && !gone to c) ||
       (List.range k).all (fun g =>
         let ti := (s.inn c).w.trace
         !(lastRes ti g == some .pend && !gone ti g && owes ti g) || wokeSince to)))

/-- no waker invocation panics at either level -/
def noWakePanic (nc : NCase) (s : St) : Bool :=
  Mon.c01NoPanic s.out.w.trace &&
  (List.range nc.n).all (fun c => !(nc.inner c).isSome || Mon.c01NoPanic (s.inn c).w.trace)

/-- `quietAt` at every operation boundary of the history -/
def holdsNest (nc : NCase) : Bool :=
  (List.range (nc.ops.length + 1)).all (fun k =>
    let s := (nc.ops.take k).foldl (step nc) (init nc)
    quietAt nc s && noWakePanic nc s)

end Nest
end Fc
