/-
  Fc/Case.lean — cases (family, mode, children scripts, operation history) and `run`.
-/
import Fc.Groups

namespace Fc

inductive Fam
  | joinSlice | joinTuple | tryJoinSlice | tryJoinTuple
  | race | raceOkArr | raceOkVec | raceOkTup
  | merge | zip | chain | waitF | waitS
  | futGroup | strGroup
  deriving DecidableEq, Repr

structure Case where
  fam     : Fam
  mode    : Mode
  keyed   : Bool
  n       : Nat
  scripts : Nat → List Step
  ops     : List Op

/-- families that hand the caller's `Context` straight to their children in every build -/
def Fam.passThrough : Fam → Bool
  | .race | .raceOkArr | .raceOkVec | .raceOkTup | .chain | .waitF | .waitS => true
  | _ => false

def Fam.modeOf (f : Fam) (m : Mode) : Mode := if f.passThrough then .direct else m

/-- the policy of a fixed-children family (groups use `group`) -/
def Fam.policy : Fam → Policy Fix
  | .joinSlice => Fc.joinSlice
  | .joinTuple => Fc.joinTuple
  | .tryJoinSlice => Fc.tryJoinSlice
  | .tryJoinTuple => Fc.tryJoinTuple
  | .race => Fc.race
  | .raceOkArr => Fc.raceOk false false
  | .raceOkVec => Fc.raceOk false true
  | .raceOkTup => Fc.raceOk true false
  | .merge => Fc.merge
  | .zip => Fc.zip
  | .chain => Fc.chain
  | .waitF => Fc.waitUntilF
  | .waitS => Fc.waitUntilS
  | .futGroup => Fc.joinSlice   -- unused
  | .strGroup => Fc.joinSlice   -- unused

def Fam.initCnt (f : Fam) (n : Nat) : Nat :=
  match f with
  | .joinSlice | .tryJoinSlice => n
  | _ => 0

def Fam.isGroup : Fam → Bool
  | .futGroup | .strGroup => true
  | _ => false

/-- is child `ch` of family `f` a stream?  (`wait_until` over a stream: child 0, the deadline, is
    a future) -/
def Fam.childIsStream (f : Fam) (ch : Nat) : Bool :=
  match f with
  | .merge | .zip | .chain | .strGroup => true
  | .waitS => ch != 0
  | _ => false

/-- the results a child of a given kind can produce at all (Rust's types enforce this): a future
    never yields items or ends, a stream never resolves -/
def Res.fits (stream : Bool) : Res → Bool
  | .pend | .panic => true
  | .ready _ _ => !stream
  | .item _ | .fin => stream

/-- every scripted step has the kind of its child -/
def Case.kindOk (c : Case) : Prop :=
  ∀ ch st, st ∈ c.scripts ch → st.res.fits (c.fam.childIsStream ch) = true

namespace FEng

def step (P : Policy Fix) (e : Eng Fix) : Op → Eng Fix
  | .poll w => Eng.poll P e w
  | .fire c age => e.fire c age
  | .drop => Eng.drop P e
  | _ => e

def init (f : Fam) (m : Mode) (n : Nat) (scripts : Nat → List Step) : Eng Fix :=
  { w := World.init (f.modeOf m) n scripts, s := Fix.init n (f.initCnt n) }

end FEng

def GEng.init (stream keyed : Bool) (m : Mode) (scripts : Nat → List Step) : Eng Grp :=
  { w := World.init m 0 scripts, s := Grp.init stream keyed }

/-- final engine state of a fixed-children case -/
def Case.finalFix (c : Case) : Eng Fix :=
  c.ops.foldl (FEng.step c.fam.policy) (FEng.init c.fam c.mode c.n c.scripts)

/-- final engine state of a group case -/
def Case.finalGrp (c : Case) : Eng Grp :=
  c.ops.foldl GEng.step (GEng.init (c.fam = .strGroup) c.keyed c.mode c.scripts)

/-- the event trace of a case, NEWEST FIRST (the form the monitors take) -/
def Case.trace (c : Case) : List Ev :=
  if c.fam.isGroup then c.finalGrp.w.trace else c.finalFix.w.trace

/-- the event trace (oldest first) of a case -/
def Case.run (c : Case) : List Ev := c.trace.reverse

end Fc
