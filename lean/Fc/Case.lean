/-
  Fc/Case.lean — cases (family, mode, children scripts, operation history) and `run`.
-/
import Fc.Groups

namespace Fc

inductive Fam
  | joinSlice | joinTuple | tryJoinSlice | tryJoinTuple
  | race | raceOkArr | raceOkVec | raceOkTup
  | merge | zip | chain | waitF | waitS
  | futGroup | strGroup
  deriving DecidableEq, Repr

structure Case where
  fam     : Fam
  mode    : Mode
  keyed   : Bool
  n       : Nat
  scripts : Nat → List Step
  ops     : List Op

/-- families that hand the caller's `Context` straight to their children in every build -/
def Fam.passThrough : Fam → Bool
  | .race | .raceOkArr | .raceOkVec | .raceOkTup | .chain | .waitF | .waitS => true
  | _ => false

def Fam.modeOf (f : Fam) (m : Mode) : Mode := if f.passThrough then .direct else m

/-- the policy of a fixed-children family (groups use `group`) -/
def Fam.policy : Fam → Policy Fix
  | .joinSlice => Fc.joinSlice
  | .joinTuple => Fc.joinTuple
  | .tryJoinSlice => Fc.tryJoinSlice
  | .tryJoinTuple => Fc.tryJoinTuple
  | .race => Fc.race
  | .raceOkArr => Fc.raceOk false false
  | .raceOkVec => Fc.raceOk false true
  | .raceOkTup => Fc.raceOk true false
  | .merge => Fc.merge
  | .zip => Fc.zip
  | .chain => Fc.chain
  | .waitF => Fc.waitUntilF
  | .waitS => Fc.waitUntilS
  | .futGroup => Fc.joinSlice   -- unused
  | .strGroup => Fc.joinSlice   -- unused

def Fam.initCnt (f : Fam) (n : Nat) : Nat :=
  match f with
  | .joinSlice | .tryJoinSlice => n
  | _ => 0

def Fam.isGroup : Fam → Bool
  | .futGroup | .strGroup => true
  | _ => false

namespace FEng

def step (P : Policy Fix) (e : Eng Fix) : Op → Eng Fix
  | .poll w => Eng.poll P e w
  | .fire c age => e.fire c age
  | .drop => Eng.drop P e
  | _ => e

def init (f : Fam) (m : Mode) (n : Nat) (scripts : Nat → List Step) : Eng Fix :=
  { w := World.init (f.modeOf m) n scripts, s := Fix.init n (f.initCnt n) }

end FEng

def GEng.init (stream keyed : Bool) (m : Mode) (scripts : Nat → List Step) : Eng Grp :=
  { w := World.init m 0 scripts, s := Grp.init stream keyed }

/-- the event trace (oldest first) of a case -/
def Case.run (c : Case) : List Ev :=
  match c.fam with
  | .futGroup => ((c.ops.foldl GEng.step (GEng.init false c.keyed c.mode c.scripts)).w.trace).reverse
  | .strGroup => ((c.ops.foldl GEng.step (GEng.init true c.keyed c.mode c.scripts)).w.trace).reverse
  | f => ((c.ops.foldl (FEng.step f.policy) (FEng.init f c.mode c.n c.scripts)).w.trace).reverse

end Fc
