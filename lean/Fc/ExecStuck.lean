/-
  Fc/ExecStuck.lean — children that never complete, for the wake-only executor of Fc/Exec.lean /
  Fc/ExecAny.lean (property C20, second sentence: "a child that stays Pending forever never prevents
  its siblings from being polled when they are woken, from running to completion, or from having
  their results delivered").

  A never-completing child's script consists of `Pending` steps only (each with arbitrary in-poll
  wake-ups of arbitrary wakers); once the script is exhausted the model answers `Pending` for ever
  and wakes nobody (`World.stepOf`).  The empty script is the child that is `Pending` from the start
  and never wakes anybody.
-/
import Fc.ExecAny

namespace Fc
namespace Exec

/-- a never-completing child: `Pending` steps only -/
def pendScript (s : List Step) : Bool := s.all (fun st => st.res == .pend)

/-- a future child that is either well-behaved (`futureScript`) or never completes -/
def futOrNever (s : List Step) : Bool := futureScript s || pendScript s

/-- the answer of a script's last step: the result a well-behaved future resolves with -/
def lastAnswer (s : List Step) : Option Res := s.getLast?.map (fun st => st.res)

/-- the items a stream script holds, in order -/
def scriptItems (s : List Step) : List Nat :=
  s.filterMap (fun st => match st.res with | .item v => some v | _ => none)

/-- the run has come to rest at `e` without a final outcome: the latest outcome is `Pending`, the
    task has not been woken since, and no child has a scripted step left (so nobody can be prodded:
    `Exec.firstWaiting` / `ExecAny.isWaiting` ask for a step left) -/
def atRest (n : Nat) (e : Eng Fix) : Bool :=
  Mon.lastOut e.w.trace == some .pending && !Mon.wokeSince e.w.trace && stepsLeft n e == 0

end Exec
end Fc
