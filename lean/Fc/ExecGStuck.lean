/-
  Fc/ExecGStuck.lean — members that never complete, for the wake-only executor of Fc/ExecG.lean /
  Fc/ExecGAny.lean driving a FutureGroup / StreamGroup (property C20, second sentence: "a child that
  stays Pending forever never prevents its siblings from being polled when they are woken, from
  running to completion, or — for … the groups — from having their results delivered").

  A never-completing member's script consists of `Pending` steps only (`Exec.pendScript`,
  Fc/ExecStuck.lean); once it is exhausted the model answers `Pending` for ever and wakes nobody.
-/
import Fc.ExecGAny
import Fc.ExecStuck

namespace Fc
namespace Exec

/-- the values a child answer delivers: a future's output, a stream's item -/
def resVals : Res → List Nat
  | .ready _ v => [v]
  | .item v => [v]
  | _ => []

/-- the values a script delivers, in order: the output of a future script, the items of a stream
    script -/
def scriptVals (s : List Step) : List Nat := s.flatMap (fun st => resVals st.res)

end Exec

namespace ExecG

/-- the run has come to rest at `e` without a final outcome: the latest outcome is `Pending`, the
    task has not been woken since that poll, and no current member has a scripted step left (so
    nobody can be prodded: `ExecG.firstWaiting` / `ExecGAny.isWaiting` ask for a step left) -/
def atRest (e : Eng Grp) : Bool :=
  Mon.lastOut e.w.trace == some .pending && !Mon.wokeSince e.w.trace && stepsLeft e == 0

end ExecG
end Fc
