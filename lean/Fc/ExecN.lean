/-
  Fc/ExecN.lean — the wake-only executor of Fc/Exec.lean for a NEST (Fc/Nest.lean): an outer
  combinator some of whose children are inner combinator instances over scripted leaves.

  The executor polls the nest (with a FRESH task waker each time) only if the task has been woken
  since the previous top-level poll began, or the nest was never polled, or the previous poll
  yielded an item (`Exec.shouldPoll` on the OUTER trace).  Otherwise the environment lets the first
  waiting scripted future / stream make progress by invoking the waker it was handed in its most
  recent poll (`Nest.fire nc s id 0`): a plain outer child `c` (global id `c`), or a leaf `g` of the
  inner instance in outer slot `c` (global id `Nest.leafId c g = 100 * (c + 1) + g`).

    * a plain child is waiting if its latest answer to the outer instance was `Pending` and it has a
      scripted step left;
    * a leaf is waiting if the nested child it belongs to has not been released, the nested child's
      latest answer to the outer instance was `Pending` (a nested child that was never polled has
      no polled leaf, so nothing is lost by asking for `Pending`; a nested child that resolved /
      ended is not waiting for its leaves any more), the leaf's latest answer to the inner instance
      was `Pending`, and it has a scripted step left.
-/
import Fc.Nest
import Fc.Exec

namespace Fc
namespace ExecN
open Mon Nest

/-- plain outer child `c` is waiting -/
def waitingPlain (nc : NCase) (s : St) (c : Nat) : Bool :=
  (nc.inner c).isNone && lastRes s.out.w.trace c == some .pend && !(s.out.w.scripts c).isEmpty

/-- leaf `g` of the inner instance of nested child `c` is waiting -/
def waitingLeaf (nc : NCase) (s : St) (c g : Nat) : Bool :=
  !s.gone c && lastRes s.out.w.trace c == some .pend &&
    lastRes (s.inn c).w.trace g == some .pend && !((s.inn c).w.scripts g).isEmpty

/-- the global ids of the waiting children of outer slot `c`, in scan order -/
def waitingIn (nc : NCase) (s : St) (c : Nat) : List Nat :=
  match nc.inner c with
  | none => if waitingPlain nc s c then [c] else []
  | some (_, k) => ((List.range k).filter (waitingLeaf nc s c)).map (leafId c)

/-- the first waiting child (outer slots `0..n-1`, within a nested child leaves `0..k-1`) -/
def firstWaiting (nc : NCase) (s : St) : Option Nat :=
  ((List.range nc.n).flatMap (waitingIn nc s)).head?

/-- one round of executor + environment; `none` = nothing left to do (final outcome, or stuck:
    not woken and nothing can be prodded) -/
def round (nc : NCase) (s : St) : Option St :=
  if Exec.finalOut (lastOut s.out.w.trace) then none
  else if Exec.shouldPoll s.out.w.trace then
    some (Nest.poll nc s (Exec.pollCount s.out.w.trace + 1))
  else match firstWaiting nc s with
    | some id => some (Nest.fire nc s id 0)
    | none => none

/-- run up to `fuel` rounds -/
def runFor (nc : NCase) : Nat → St → St
  | 0, s => s
  | k + 1, s => match round nc s with
    | some s' => runFor nc k s'
    | none => s

/-- scripted steps left in outer slot `c`: of the plain child, or of all leaves of the nested child
    unless it has been released -/
def stepsIn (nc : NCase) (s : St) (c : Nat) : Nat :=
  match nc.inner c with
  | none => (s.out.w.scripts c).length
  | some (_, k) =>
    if s.gone c then 0 else ((List.range k).map (fun g => ((s.inn c).w.scripts g).length)).sum

/-- total number of scripted steps left -/
def stepsLeft (nc : NCase) (s : St) : Nat := ((List.range nc.n).map (stepsIn nc s)).sum

/-- the ids are decodable: at most 100 outer children, at most 100 leaves per inner instance -/
def wellFormed (nc : NCase) : Bool :=
  decide (nc.n ≤ 100) &&
  (List.range nc.n).all (fun c => match nc.inner c with | none => true | some (_, k) => decide (k ≤ 100))

/-- the future families; `k` = number of children (a `race` of nothing never resolves) -/
def futFam (fam : Fam) (k : Nat) : Bool :=
  match fam with
  | .joinSlice | .joinTuple | .tryJoinSlice | .tryJoinTuple | .raceOkArr | .raceOkVec | .raceOkTup => true
  | .race => decide (0 < k)
  | _ => false

/-- every plain child and every leaf of the nest is a well-behaved future (`Exec.futureScript`) -/
def futScripts (nc : NCase) : Bool :=
  (List.range nc.n).all (fun c => match nc.inner c with
    | none => Exec.futureScript (nc.scripts c)
    | some (_, k) => (List.range k).all (fun g => Exec.futureScript (nc.scripts (leafId c g))))

/-- the stream families; `k` = number of inputs (the model of `zip` needs one) -/
def strFam (fam : Fam) (k : Nat) : Bool :=
  match fam with
  | .merge | .chain => true
  | .zip => decide (0 < k)
  | _ => false

end ExecN
end Fc
