import FcLemmas.World
import FcLemmas.Lawful
import FcLemmas.Lawful2
import FcLemmas.Engine
import FcLemmas.C16
